#!/bin/bash
# Confirm a behaviour-preserving change proposed by a sub-agent in /tmp/wt/<ID> (OUT/patch.diff,
# OUT/benign_<id>.rs): its own tests pass on clean HEAD and with the patch; the patch applies on
# clean HEAD, builds with the hook feature, and the unedited suite passes with and without hooks.
# With --store also writes /verif/benign/<ID>/.
set -u
ID="$1"; shift
WT="${WT_ROOT:-/tmp/wt}/$ID"; lc=$(echo "$ID" | tr 'A-Z' 'a-z'); export CARGO_NET_OFFLINE=true
cd "$WT" || exit 2
git checkout -q -- . ; git clean -fdq src tests
cp "OUT/benign_$lc.rs" tests/ 2>/dev/null
if timeout 1500 cargo test --offline --test "benign_$lc" >OUT/confirm_head.log 2>&1; then head=pass; else head=FAIL; fi
git apply OUT/patch.diff 2>OUT/confirm_apply.log || { echo "$ID: patch does not apply"; exit 1; }
files=$(git diff --shortstat -- src | sed 's/^ *//')
if timeout 1500 cargo test --offline --test "benign_$lc" >OUT/confirm_own.log 2>&1; then own=pass; else own=FAIL; fi
rm -f "tests/benign_$lc.rs"
timeout 1800 cargo test --workspace --no-fail-fast --offline >OUT/confirm_suite.log 2>&1; s1=$?
timeout 1800 cargo test --workspace --no-fail-fast --offline --features verif-hooks >OUT/confirm_suite_hooks.log 2>&1; s2=$?
p1=$(grep -E "^test result" OUT/confirm_suite.log | sed -E 's/.* ([0-9]+) passed.*/\1/' | paste -sd+ | bc)
p2=$(grep -E "^test result" OUT/confirm_suite_hooks.log | sed -E 's/.* ([0-9]+) passed.*/\1/' | paste -sd+ | bc)
cp "OUT/benign_$lc.rs" tests/ 2>/dev/null
RAW="$ID: own-tests@HEAD=$head own-tests+patch=$own files=$files suite+patch: exit=$s1 passed=$p1 ; with verif-hooks: exit=$s2 passed=$p2"
echo "$RAW"
ok=0; [ "$head" = pass ] && [ "$own" = pass ] && [ $s1 = 0 ] && [ $s2 = 0 ] && ok=1
if [ "${1:-}" = "--store" ] && [ $ok = 1 ]; then
  D=/verif/benign/$ID; mkdir -p "$D"; cp OUT/patch.diff "$D/"; cp "OUT/benign_$lc.rs" "$D/" 2>/dev/null; cp OUT/NOTES.md "$D/" 2>/dev/null
  python3 - "$ID" "$2" "$RAW" > "$D/meta.json" <<'PY'
import json,sys
print(json.dumps({"id":sys.argv[1],"what":sys.argv[2],"origin":"independent sub-agent asked for a substantial behaviour-preserving change (round 13); nothing from /verif","confirmed_by_me":sys.argv[3]},indent=1))
PY
  echo "$ID stored in $D"
fi
[ $ok = 1 ]
