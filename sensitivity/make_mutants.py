#!/usr/bin/env python3
"""Generates the deliberate property-breaking edits of DESIGN §7 as patch files.

Each mutant is an exact textual substitution in one file of /repo (the k-th occurrence of `old`).
The script applies it to /repo's working tree, records `git diff` as sensitivity/<name>.diff and
restores the tree. It refuses to run on a dirty /repo. The diffs are committed so that the
sensitivity run (sensitivity/run.sh) does not depend on this script's anchors staying valid.

Usage: ./make_mutants.py            regenerate every diff
"""
import json, os, subprocess, sys

REPO = "/repo"
HERE = os.path.dirname(os.path.abspath(__file__))

# (name, property expected to catch it, file, occurrence index (0-based), old, new, note)
M = [
 # ---- C07
 ("c07_limit_ge", "C07", "src/vm.rs", 0,
  "if backtrack_count > options.backtrack_limit {", "if backtrack_count >= options.backtrack_limit {",
  "limit test off by one: BacktrackLimitExceeded one backtrack early"),
 ("c07_count_twice", "C07", "src/vm.rs", 0,
  "        backtrack_count += 1;\n", "        backtrack_count += 2;\n",
  "every backtrack counted twice"),
 ("c07_limit_returns_none", "C07", "src/vm.rs", 0,
  "            return Err(Error::RuntimeError(RuntimeError::BacktrackLimitExceeded));",
  "            return Ok(None);",
  "limit abort reported as 'no match'"),
 ("c07_epsilon_guard_removed", "C07", "src/vm.rs", 0,
  "if repcount > lo && state.get(check) == ix {", "if repcount > lo && state.get(check) == ix && false {",
  "greedy empty-iteration guard disabled"),
 ("c07_plain_loop_for_empty_body", "C07", "src/compile.rs", 0,
  "if hi == usize::MAX && child.min_size == 0 {", "if hi == usize::MAX && child.min_size == 0 && !child.const_size {",
  "const-size empty bodies (look-arounds, anchors) lowered as a plain loop"),
 ("c07_stack_cap_le", "C07", "src/vm.rs", 0,
  "if self.stack.len() < self.max_stack {", "if self.stack.len() <= self.max_stack {",
  "branch stack may hold one more than its capacity"),
 ("c07_alt_min_is_max", "C07", "src/analyze.rs", 0,
  "min_size = min(min_size, child_info.min_size);", "min_size = core::cmp::max(min_size, child_info.min_size);",
  "alternation minimum size over-estimated: empty-iteration guard lost"),
 # ---- C08
 ("c08_keep_adjacent_empty", "C08", "src/lib.rs", 0,
  "            if Some(mat.end) == self.last_match {\n                return self.next();\n            }\n", "",
  "empty match adjacent to the previous match is yielded"),
 ("c08_step_one_byte", "C08", "src/lib.rs", 0,
  "self.last_end = next_utf8(self.text, mat.end);", "self.last_end = mat.end + 1;",
  "step one byte instead of one character after an empty match"),
 ("c08_no_poison_on_error", "C08", "src/lib.rs", 0,
  "                    self.last_end = self.text.len() + 1;\n                    return Some(Err(error));",
  "                    return Some(Err(error));",
  "iterator not fused after an Err item"),
 ("c08_flag_not_passed", "C08", "src/lib.rs", 0,
  "            if self.last_end > last_match {\n                OPTION_SKIPPED_EMPTY_MATCH",
  "            if self.last_end > last_match + usize::MAX / 2 {\n                OPTION_SKIPPED_EMPTY_MATCH",
  "skipped-empty flag never passed to the search"),
 ("c08_no_step_after_empty", "C08", "src/lib.rs", 0,
  "self.last_end = next_utf8(self.text, mat.end);", "self.last_end = mat.end;",
  "no progress after an empty match"),
 ("c08_vm_ignores_skipped_flag", "C08", "src/vm.rs", 0,
  "if ix > pos || option_flags & OPTION_SKIPPED_EMPTY_MATCH != 0 {", "if ix > pos {",
  "\\G holds at a position reached by stepping over an empty match (lower-layer half of the iterator protocol)"),
 # ---- C11
 ("c11_fast_limit_gt", "C11", "src/lib.rs", 0,
  "if limit > 0 && i >= limit {", "if limit > 0 && i > limit {",
  "fast path replaces n+1 matches"),
 ("c11_slow_limit_gt", "C11", "src/lib.rs", 1,
  "if limit > 0 && i >= limit {", "if limit > 0 && i > limit {",
  "slow path replaces n+1 matches"),
 ("c11_rep_before_gap", "C11", "src/lib.rs", 0,
  "                new.push_str(&text[last_match..m.start()]);\n                new.push_str(&rep);",
  "                new.push_str(&rep);\n                new.push_str(&text[last_match..m.start()]);",
  "replacement emitted before the gap"),
 ("c11_unwrap_search_error", "C11", "src/lib.rs", 0,
  "                let m = m?;", "                let m = m.unwrap();",
  "search error panics instead of being returned"),
 ("c11_owned_when_no_match", "C11", "src/lib.rs", 0,
  "\n            return Ok(Cow::Borrowed(text));", "\n            return Ok(Cow::Owned(text.to_string()));",
  "slow path returns an owned copy when there is no match"),
 ("c11_noexp_ignores_dollar", "C11", "src/replacer.rs", 0,
  "    if s.contains('$') {", "    if s.contains(\"${\") {",
  "templates with $name / $1 tokens taken for literal strings"),
 # ---- C18
 ("c18_static_backtrack_counter", "C18", "src/vm.rs", 0,
  "        backtrack_count += 1;\n        if backtrack_count > options.backtrack_limit {",
  "        backtrack_count += 1;\n        static SHARED: core::sync::atomic::AtomicUsize = core::sync::atomic::AtomicUsize::new(0);\n        if backtrack_count == 1 {\n            SHARED.store(0, core::sync::atomic::Ordering::SeqCst);\n        }\n        let backtrack_count_shared = SHARED.fetch_add(1, core::sync::atomic::Ordering::SeqCst) + 1;\n        if backtrack_count_shared > options.backtrack_limit {",
  "backtrack counter hoisted into a process-wide atomic (reset at a search's first backtrack)"),
 # ---- C20
 ("c20_cut_nsave_wrong", "C20", "src/vm.rs", 0,
  "self.nsave = oldsave_ix - oldsave_start;", "self.nsave = oldsave_ix - oldsave_end;",
  "entry count after backtrack_cut forgets the target branch's own entries"),
 ("c20_save_scans_one_more", "C20", "src/vm.rs", 0,
  "        for i in 0..self.nsave {\n            // could avoid", "        for i in 0..(self.nsave + 1).min(self.oldsave.len()) {\n            // could avoid",
  "fast path of save looks one undo entry too far (into the parent level)"),
 ("c20_pop_keeps_nsave", "C20", "src/vm.rs", 0,
  "        let Branch { pc, ix, nsave } = self.stack.pop().unwrap();\n        self.nsave = nsave;",
  "        let Branch { pc, ix, nsave } = self.stack.pop().unwrap();\n        self.nsave = nsave.min(1);",
  "pop restores at most one pending undo entry count"),
 ("c20_stackpush_unlogged_sp", "C20", "src/vm.rs", 0,
  "        self.save(explicit_sp, sp + 1);", "        self.saves[explicit_sp] = sp + 1;",
  "auxiliary stack pointer written without an undo entry"),
 ("c20_cut_early_return", "C20", "src/vm.rs", 0,
  "        if self.stack.len() == count {\n            // no backtrack branches to discard",
  "        if self.stack.len() <= count + 1 && self.nsave == 0 {\n            // no backtrack branches to discard",
  "backtrack_cut keeps a single newest alternative when nothing was written since"),
 ("c20_failneg_stops_early", "C20", "src/vm.rs", 0,
  "                        if popped_pc == pc + 1 {", "                        if popped_pc <= pc + 1 {",
  "negative look-around unwinding stops at the first alternative it pops (one created inside the look-around)"),
 ("c20_endatomic_cut_plus_one", "C20", "src/vm.rs", 0,
  "                    state.backtrack_cut(count);", "                    state.backtrack_cut((count + 1).min(state.backtrack_count()));",
  "atomic commit keeps the newest alternative created inside the group"),
]

def sh(*a, **kw):
    return subprocess.run(a, capture_output=True, text=True, **kw)

def main():
    if sh("git", "-C", REPO, "status", "--porcelain", "--untracked-files=no").stdout.strip():
        sys.exit("refusing: /repo working tree is dirty")
    index = []
    for name, prop, path, occ, old, new, note in M:
        full = os.path.join(REPO, path)
        src = open(full).read()
        pos = -1
        for _ in range(occ + 1):
            pos = src.find(old, pos + 1)
            if pos < 0:
                sys.exit(f"{name}: anchor not found in {path}")
        open(full, "w").write(src[:pos] + new + src[pos + len(old):])
        d = sh("git", "-C", REPO, "diff", "--", path).stdout
        sh("git", "-C", REPO, "checkout", "--", path)
        if not d.strip():
            sys.exit(f"{name}: empty diff")
        open(os.path.join(HERE, name + ".diff"), "w").write(d)
        index.append({"name": name, "property": prop, "file": path, "note": note})
    json.dump(index, open(os.path.join(HERE, "index.json"), "w"), indent=1)
    print(f"{len(index)} mutants written")

if __name__ == "__main__":
    main()
