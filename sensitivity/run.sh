#!/bin/bash
# Sensitivity run: apply each deliberate property-breaking patch to /repo's working tree, run the
# quick check of the property that must catch it (evidence files are not touched), restore /repo.
#   ./run.sh [--suite] [--all-checks] [--dir DIR] [name ...]
#     --suite       also run /repo's own test suite on the mutated tree (is the mutant "realistic"?)
#     --all-checks  run all five quick checks per mutant, not only the expected one
#     --dir DIR     take <name>.diff / index.json from DIR (default: this directory); for
#                   /verif/seeded use --seeded instead
#     --seeded      run the kept sub-agent changes under /verif/seeded/<id>/patch.diff
# Prints one line per mutant and writes results.json next to the patches.
# Exit 0 iff every mutant was caught by its expected check (exit 1 with a VIOLATION line).
set -u
HERE="$(cd "$(dirname "$0")" && pwd)"
VERIF="$(dirname "$HERE")"
SUITE=0; ALL=0; DIR="$HERE"; SEEDED=0
NAMES=()
while [ $# -gt 0 ]; do
  case "$1" in
    --suite) SUITE=1 ;;
    --all-checks) ALL=1 ;;
    --dir) DIR="$2"; shift ;;
    --seeded) SEEDED=1; DIR="$VERIF/seeded" ;;
    *) NAMES+=("$1") ;;
  esac
  shift
done
if [ -n "$(git -C /repo status --porcelain --untracked-files=no)" ]; then
  echo "refusing: /repo working tree is dirty" >&2; exit 2
fi
restore() { git -C /repo checkout -- . ; git -C /repo clean -fdq src ; }
trap restore EXIT

GIVEN=1
if [ ${#NAMES[@]} -eq 0 ]; then
  GIVEN=0
  if [ $SEEDED = 1 ]; then
    for d in "$DIR"/*/; do [ -f "$d/patch.diff" ] && NAMES+=("$(basename "$d")"); done
  else
    mapfile -t NAMES < <(python3 -c "import json;[print(m['name']) for m in json.load(open('$DIR/index.json'))]")
  fi
fi
prop_of() {
  if [ $SEEDED = 1 ]; then python3 -c "import json;print(json.load(open('$DIR/$1/meta.json'))['property'])"
  else python3 -c "import json;print([m['property'] for m in json.load(open('$DIR/index.json')) if m['name']=='$1'][0])"; fi
}
patch_of() { if [ $SEEDED = 1 ]; then echo "$DIR/$1/patch.diff"; else echo "$DIR/$1.diff"; fi; }

RES="$DIR/results.json"; [ $GIVEN = 1 ] && RES="$DIR/results_partial.json"   # a partial run never overwrites the full table
echo "[" > "$RES.tmp"; first=1; missed=0
for name in "${NAMES[@]}"; do
  prop=$(prop_of "$name"); patch=$(patch_of "$name")
  if ! git -C /repo apply "$patch" 2>/dev/null; then echo "$name: patch does not apply" >&2; missed=$((missed+1)); continue; fi
  suite="-"
  if [ $SUITE = 1 ]; then
    if (cd /repo && CARGO_NET_OFFLINE=true timeout 900 cargo test --workspace --no-fail-fast --offline >/tmp/sens_suite.log 2>&1); then suite=pass; else suite=FAIL; fi
  fi
  checks="$prop"; [ $ALL = 1 ] && checks="C07 C08 C11 C18 C20"
  line=""; caught_by=""
  for c in $checks; do
    t0=$(date +%s.%N)
    out=$(cd "$VERIF" && timeout 1800 ./check "$c" --tier quick --no-evidence 2>&1); code=$?
    t1=$(date +%s.%N)
    v=$(echo "$out" | grep -m1 '^violation class=' | cut -c1-300)
    [ $code = 1 ] && caught_by="$caught_by $c"
    line="$line $c:exit=$code($(printf '%.0f' "$(echo "$t1 - $t0" | bc)")s)"
    [ "$c" = "$prop" ] && pcode=$code && pv="$v"
  done
  restore
  status=caught; [ "$pcode" != 1 ] && status=MISSED && missed=$((missed+1))
  echo "$name [$prop] $status suite=$suite$line :: ${pv:-}"
  [ $first = 0 ] && echo "," >> "$RES.tmp"; first=0
  python3 - "$name" "$prop" "$status" "$suite" "$line" "${pv:-}" "$caught_by" >> "$RES.tmp" <<'EOF'
import json,sys
n,p,s,su,l,v,cb=sys.argv[1:8]
print(json.dumps({"name":n,"property":p,"status":s,"repo_suite":su,"checks":l.strip(),"caught_by":cb.split(),"first_violation":v}))
EOF
done
echo "]" >> "$RES.tmp"; mv "$RES.tmp" "$RES"
echo "missed: $missed of ${#NAMES[@]}"
[ $missed = 0 ]
