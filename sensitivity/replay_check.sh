#!/bin/bash
# For each named change (sensitivity/<name>.diff, or --seeded <id>): run the expected quick check on
# the mutated tree, take the replay file it reports, replay it in a fresh process on the mutated tree
# (must exit 1 with the same VIOLATION line) and, after restoring /repo, on the unchanged tree (must
# exit 0: "did not reproduce"). Evidence files are not touched.
set -u
HERE="$(cd "$(dirname "$0")" && pwd)"; VERIF="$(dirname "$HERE")"
SEEDED=0; NAMES=()
for a in "$@"; do case "$a" in --seeded) SEEDED=1 ;; *) NAMES+=("$a") ;; esac; done
[ -n "$(git -C /repo status --porcelain --untracked-files=no)" ] && { echo "refusing: /repo dirty" >&2; exit 2; }
restore() { git -C /repo checkout -- . ; git -C /repo clean -fdq src ; }
trap restore EXIT
bad=0
for name in "${NAMES[@]}"; do
  if [ $SEEDED = 1 ]; then patch="$VERIF/seeded/$name/patch.diff"; prop=$(python3 -c "import json;print(json.load(open('$VERIF/seeded/$name/meta.json'))['property'])")
  else patch="$HERE/$name.diff"; prop=$(python3 -c "import json;print([m['property'] for m in json.load(open('$HERE/index.json')) if m['name']=='$name'][0])"); fi
  git -C /repo apply "$patch" || { echo "$name: patch does not apply"; bad=$((bad+1)); continue; }
  out=$(cd "$VERIF" && ./check "$prop" --tier quick --no-evidence 2>&1); c1=$?
  rp=$(echo "$out" | grep -m1 -oE "replay=[^ ]+" | cut -d= -f2)
  if [ $c1 != 1 ] || [ -z "$rp" ]; then echo "$name [$prop]: no violation reported (exit $c1)"; restore; bad=$((bad+1)); continue; fi
  (cd "$VERIF" && ./check "$prop" --replay "$rp" >/tmp/replay_mut.log 2>&1); c2=$?
  restore
  (cd "$VERIF" && ./check "$prop" --replay "$rp" >/tmp/replay_clean.log 2>&1); c3=$?
  kind=$(python3 -c "import json;print(json.load(open('$rp'))['case'].get('kind'))" 2>/dev/null)
  status=ok; { [ $c2 != 1 ] || [ $c3 != 0 ]; } && status=BAD && bad=$((bad+1))
  echo "$name [$prop] kind=$kind: found=exit$c1 replay-on-mutant=exit$c2 replay-on-clean=exit$c3 $status"
done
echo "replay problems: $bad"
[ $bad = 0 ]
