#!/bin/bash
# Confirm a change proposed by a sub-agent in its scratch worktree /tmp/wt/<ID> (OUT/patch.diff,
# OUT/demo_<id>.rs, OUT/NOTES.md) before it is kept under /verif/seeded/<ID>/:
#   1. clean HEAD + demo            -> demo must pass
#   2. patch applies on clean HEAD; builds plainly and with --features verif-hooks
#   3. the existing suite (unedited, demo moved aside) passes with the patch
#   4. patch + demo                 -> demo must fail
# Prints one RAW line; with --store PROP "needs" also writes /verif/seeded/<ID>/ (patch, demo, notes, meta).
set -u
ID="$1"; shift
WT="${WT_ROOT:-/tmp/wt}/$ID"
lc=$(echo "$ID" | tr 'A-Z' 'a-z')
export CARGO_NET_OFFLINE=true
cd "$WT" || exit 2
[ -f OUT/patch.diff ] && [ -f "OUT/demo_$lc.rs" ] || { echo "$ID: deliverables missing"; exit 2; }
if [ "${1:-}" = "--store" ] && [ -f OUT/confirm_raw.txt ]; then
  # already confirmed by an earlier invocation: only store
  RAW=$(cat OUT/confirm_raw.txt)
  head=$(echo "$RAW" | sed -E 's/.*demo@HEAD=([a-zA-Z]+).*/\1/'); hooks=$(echo "$RAW" | sed -E 's/.*hooks-build=([a-zA-Z]+).*/\1/')
  suite_code=$(echo "$RAW" | sed -E 's/.*exit=([0-9]+).*/\1/'); mut=$(echo "$RAW" | sed -E 's/.*demo\+patch=([a-z]+).*/\1/')
else
git checkout -q -- . ; git clean -fdq src tests
cp "OUT/demo_$lc.rs" tests/
if timeout 900 cargo test --offline --test "demo_$lc" >OUT/confirm_head.log 2>&1; then head=pass; else head=FAIL; fi
rm -f "tests/demo_$lc.rs"
if ! git apply OUT/patch.diff 2>OUT/confirm_apply.log; then echo "$ID: patch does not apply"; exit 1; fi
files=$(git diff --shortstat | sed 's/^ *//')
if timeout 900 cargo build --offline --features verif-hooks >OUT/confirm_hooks.log 2>&1; then hooks=ok; else hooks=FAIL; fi
timeout 1800 cargo test --workspace --no-fail-fast --offline >OUT/confirm_suite.log 2>&1; suite_code=$?
passed=$(grep -E "^test result" OUT/confirm_suite.log | sed -E 's/.* ([0-9]+) passed.*/\1/' | paste -sd+ | bc)
failed=$(grep -E "^test result" OUT/confirm_suite.log | sed -E 's/.* ([0-9]+) failed.*/\1/' | paste -sd+ | bc)
cp "OUT/demo_$lc.rs" tests/
if timeout 900 cargo test --offline --test "demo_$lc" >OUT/confirm_mut.log 2>&1; then mut=pass; else mut=fail; fi
RAW="$ID: demo@HEAD=$head files=$files hooks-build=$hooks suite+patch: exit=$suite_code passed=$passed failed=$failed demo+patch=$mut"
echo "$RAW" > OUT/confirm_raw.txt
fi
echo "$RAW"
ok=0
[ "$head" = pass ] && [ "$hooks" = ok ] && [ "$suite_code" = 0 ] && [ "$mut" = fail ] && ok=1
if [ "${1:-}" = "--store" ] && [ $ok = 1 ]; then
  PROP="$2"; NEEDS="$3"
  D=/verif/seeded/$ID; mkdir -p "$D"
  cp OUT/patch.diff "$D/patch.diff"; cp "OUT/demo_$lc.rs" "$D/"; cp OUT/NOTES.md "$D/NOTES.md" 2>/dev/null
  python3 - "$ID" "$PROP" "$NEEDS" "$RAW" "$lc" "$(git rev-parse --short HEAD)" > "$D/meta.json" <<'EOF'
import json,sys
i,p,n,raw,lc,head=sys.argv[1:7]
print(json.dumps({"id":i,"property":p,"proposed_for":i[:3],"needs_to_manifest":n,
 "origin":"independent sub-agent (round 11) given only the property text (statement, quantifier, anchors), an angle to keep the two agents per property apart, and a scratch worktree of /repo at "+head+"; nothing from /verif",
 "confirmed_by_me":{"how":"sensitivity/confirm.sh in the scratch worktree: demo on clean HEAD; patch applied on clean HEAD; cargo build --offline --features verif-hooks; cargo test --workspace --no-fail-fast --offline (unedited suite, demo moved aside); demo with the patch",
  "demo_without_patch":"pass","demo_with_patch":"fail","raw":raw},
 "demo":"demo_%s.rs (an integration test: copy to /repo/tests/ and run `cargo test --offline --test demo_%s`)"%(lc,lc)},indent=1))
EOF
  echo "$ID stored in $D"
fi
[ $ok = 1 ]
