#!/bin/bash
# The reverse direction: behaviour-preserving changes (under /verif/benign/<id>/patch.diff) on which
# NO check may raise an alarm. Applies each to /repo, runs all five quick checks (evidence
# untouched), restores /repo. Exit 0 iff every check exited 0 on every change.
set -u
HERE="$(cd "$(dirname "$0")" && pwd)"; VERIF="$(dirname "$HERE")"; DIR="$VERIF/benign"
[ -n "$(git -C /repo status --porcelain --untracked-files=no)" ] && { echo "refusing: /repo dirty" >&2; exit 2; }
restore() { git -C /repo checkout -- . ; git -C /repo clean -fdq src ; }
trap restore EXIT
NAMES=("$@"); [ ${#NAMES[@]} -eq 0 ] && for d in "$DIR"/*/; do [ -f "$d/patch.diff" ] && NAMES+=("$(basename "$d")"); done
alarms=0; echo "[" > "$DIR/results.json.tmp"; first=1
for name in "${NAMES[@]}"; do
  git -C /repo apply "$DIR/$name/patch.diff" || { echo "$name: patch does not apply"; alarms=$((alarms+1)); continue; }
  line=""; bad=""
  for c in ${BENIGN_CHECKS:-C07 C08 C11 C18 C20}; do
    out=$(cd "$VERIF" && timeout 3600 ./check "$c" --tier quick --no-evidence 2>&1); code=$?
    line="$line $c=$code"
    if [ $code != 0 ]; then bad="$bad $c"; echo "$out" | grep -E "^violation|VIOLATION|harness" | head -3 | cut -c1-400; fi
  done
  restore
  st=quiet; [ -n "$bad" ] && st="ALARM:$bad" && alarms=$((alarms+1))
  echo "$name: $st ($line )"
  [ $first = 0 ] && echo "," >> "$DIR/results.json.tmp"; first=0
  printf '{"name":"%s","status":"%s","exit_codes":"%s"}' "$name" "$st" "$line" >> "$DIR/results.json.tmp"
done
OUTFILE="$DIR/results.json"; [ -n "${BENIGN_CHECKS:-}" ] && OUTFILE="$DIR/results_$(echo $BENIGN_CHECKS | tr ' ' '_').json"   # a run over some checks never overwrites the full table
echo "]" >> "$DIR/results.json.tmp"; mv "$DIR/results.json.tmp" "$OUTFILE"
echo "changes with an alarm: $alarms of ${#NAMES[@]}"
[ $alarms = 0 ]
