#!/usr/bin/env python3
"""Regenerates /verif/MANIFEST.json from the tables below (kept as a script so the manifest and
the list of implemented checks cannot drift apart). Usage: ./mkmanifest.py C20 C07 ..."""
import json, sys, subprocess

claimed = sys.argv[1:]
hook_commits = subprocess.run(["git", "-C", "/repo", "log", "--format=%h %s", "--grep=^verif-hooks"],
                              capture_output=True, text=True).stdout.strip().splitlines()

CHECKS = {
 "C07": dict(
   category="fault_enumeration",
   technique="deterministic simulation of single searches with limit-abort fault enumeration (every backtrack index / branch-stack depth) plus an in-VM progress monitor over logical time",
   text="Every (pattern, text, start) of a seeded workload is first run fault-free under the hook's own counters, then aborted at every backtrack index 0..N+1 and every branch-stack capacity 0..P+1 (capped, then sampled) through the limit-override hook and, on a sample, through RegexBuilder (one builder re-used for several limits, and the builder's other options set before or after the limit). Oracle per clause: an aborted run returns the injected error kind or exactly the unlimited answer; limits at or above the measured need are transparent; a limit error is legitimate only if the hook's independent count reached the limit; no configuration (pc, ix, slots, aux stack) repeats between two backtracks (so the machine cannot spin). fault_enumeration because the abort points of each case are enumerated, the cases themselves are sampled.",
   note="Trusts: the answer of the fault-free run (C01/C02 are not decided here); the hook counters placed next to the VM's own (add-only lines). Workload texts are <= 8 characters (14 in a third of the thorough tier).",
   design="4.1"),
 "C08": dict(
   category="exploration",
   technique="deterministic simulation of stepped find_iter histories over a fault-injected search layer, refined against an executable iterator model",
   text="find_iter is stepped one next() at a time over the real search primitive, with a limit fault injected into a chosen search of the iteration; the yielded history and the recorded lower-layer calls are compared with a small executable transcription of the statement that queries the same fault-injected search layer; in-run invariants (ordering, no overlap, char boundaries, bounded item count, at most four searches per next()) and fused-after-Err are checked on every history. Two further model elements remove trust from the lower layer: fault-free histories of patterns with \\G are also compared with an iteration that never passes the skipped-empty flag (\\G replaced by (?!) at stepped positions), and on a sample every continuing search is compared with the same search expressed from position 0 (only when both run identical VM code for the pattern). Seeded exploration of (pattern, text, fault position).",
   note="Trusts the answer of a single search from position 0 (C01/C02); continuing searches are cross-checked on a sample. Histories showing the listed \\K-in-look-behind signature are counted, not reported (known finding, also probed by fixed witnesses).",
   design="4.2"),
 "C11": dict(
   category="exploration",
   technique="deterministic simulation of try_replacen over a fault-injected search layer, refined against an executable replace model",
   text="try_replacen / replace / replacen / replace_all run with every replacer kind and limits 0..3 over the real iterators, with limit faults injected into chosen searches; the result is compared with an executable model (gaps verbatim, first n matches replaced, tail verbatim) built from the fault-free match sequence; Borrowed-iff-no-match, replacer-kind equivalence (also under a limit fault), fast/slow path agreement, one replacer object reused for two calls through by_ref(), one template used with a regex, then with a sibling regex whose groups are numbered differently, then with the first again (call sequences on one thread), at most 2(chars+3)+6 searches per call, and Err-not-panic-never-partial under every fired fault are checked.",
   note="Trusts find_iter / captures_iter sequences (C08) and single searches; template parsing beyond well-formed $$, ${N}, ${name} tokens is C12's. A call that returns Ok without ever making the search that errors in the fault-free reference iteration is counted, not judged (the statement does not ask that every search be made).",
   design="4.3"),
 "C18": dict(
   category="exploration",
   technique="deterministic simulation of 2..16 caller threads under a seeded baton scheduler (real threads, one runs at a time, every hand-off drawn from the seed and recorded), self-reference oracle; plus a Miri many-seeds slice (second seeded scheduler, basic-block preemption, data-race detector) in both tiers",
   text="Caller threads run seeded programs over the whole search API on one shared Regex and on clones; they can lose the CPU at every VM instruction, backtrack, delegate call and API/iterator seam, and the seeded scheduler decides every hand-off (uniform, PCT-like and operation-boundary policies, swarm-varied). A third of the scenarios also exercise the regex life cycle across threads (a thread drops a regex and compiles a sibling into a mailbox, others search with whatever is there). Every call must return exactly what the same call returns alone on a fresh Regex; no panic difference, no deadlock. A volume slice (12 runs quick / 160 thorough) puts 3..6 threads into searches that each hold 450k..850k pending alternatives at the same moment (lock-step hand-offs), which is where anything accounted per process instead of per search shows. The schedule is the replay file. Send/Sync/Clone are asserted at compile time. Small 3-thread programs over the shipped (hook-free) library (API rotation on a shared regex and an in-thread clone; handles and results dropped on different threads; every thread replacing with its own $-template) are additionally interpreted by Miri over a window of scheduler seeds (3x16 quick / 6x96 thorough); a failing Miri seed is the replay.",
   note="Interleavings are explored at yield-point granularity; races below that granularity (unsafe code, or lock/unlock sequences between two yield points) are left to the Miri slice, which is small because Miri is slow (about 4 s per execution). regex-automata runs real code in both.",
   design="4.4"),
 "C20": dict(
   category="exploration",
   technique="deterministic simulation of rollback/commit histories against a whole-state-copy reference model, at the hooked State API and shadowing real VM runs, with capacity and limit faults",
   text="Seeded legal operation histories (create/abandon alternative, write slot, aux push/pop, enter/commit atomic, raw cut, capacity faults) are executed against the VM's private State through the hook wrapper and against a model that keeps complete copies; slots, auxiliary stack, depth and return values are compared after every operation (3 slots and 3 values as the statement's own bound, plus large-commit, wrap-window and wide histories: up to 200 slots with writes next to the 64 / 128 boundaries, up to 300 operations). The same model shadows real vm::run executions through the observer hook, adding bracket discipline (every EndAtomic commits, against its own BeginAtomic's marker and depth), negative-look-around unwinding to its own alternative, result-slot equality, the one caller-visible consequence that needs no reference matcher (a group inside a negative look-around is unset in every result), and commit brackets: in copies of the generated patterns, atomic groups / possessive quantifiers / negative look-arounds stand between empty marker groups, and when the marker after the construct executes exactly the alternatives alive at the marker before it may be alive, whatever instructions the construct was compiled to; also under injected limit aborts.",
   note="Trusts the read-only view of State (slots, live aux stack, depth). A generated run that consumes a conditional's leaked atomic marker (listed known finding, recognised by its call-site signature) is counted and not checked past that point.",
   design="4.5"),
}

NA = {
 "C01": "pure function of (pattern, text, start): deciding it needs a reference matcher and input enumeration (differential testing); no schedule, fault or environment-chosen history for a simulator to own",
 "C02": "pure function of (pattern, text): same as C01, for capture groups",
 "C03": "the VM/automata split is a deterministic function of the pattern and the property perturbs it by rewriting the input; nothing environmental to inject (a buggify knob was considered and rejected, DESIGN 2)",
 "C04": "differential test against the regex crate over inputs; no nondeterminism on either side",
 "C05": "pure function of (pattern, text); the fault-path panics this family can reach are checked where the faults are (C07/C08/C11)",
 "C06": "pure function of the pattern string; allocation-failure injection aborts the process instead of unwinding and the defect class is requesting memory, not failing to get it",
 "C09": "relation between pure functions of the same input; no schedule, fault or history",
 "C10": "deterministic iterator over a deterministic sequence; the statement has no fault or schedule clause (split/splitn still run as operations inside C18 simulations, self-reference oracle only)",
 "C12": "pure function of (template, captures); the only I/O seam (write_expansion's io::Write) is not in the statement",
 "C13": "static analysis facts vs all inputs; pure",
 "C14": "static configuration equivalence; options never change during a run (that a limit is honoured mid-search is C07)",
 "C15": "pure function of (pattern, text)",
 "C16": "pure function of the pattern",
 "C17": "pure function of the string",
 "C19": "relation over inputs; pure",
}

checks = []
for pid in claimed:
    c = CHECKS[pid]
    checks.append({
        "property_id": pid,
        "quick_cmd": f"./check {pid} --tier quick",
        "thorough_cmd": f"./check {pid} --tier thorough",
        "evidence_file": f"/verif/evidence/{pid}.json",
        "replay_cmd_template": f"./check {pid} --replay {{path}}",
        "engine": "frsim",
        "level_claimed": {"category": c["category"], "text": c["text"], "design_ref": c["design"]},
        "level_note": c["note"],
        "technique": c["technique"],
    })
na = [{"property_id": k, "reason": v} for k, v in NA.items()]
for pid in CHECKS:
    if pid not in claimed:
        na.append({"property_id": pid, "reason": "check not yet implemented in this commit (planned, see DESIGN.md 4)"})
m = {
 "version": 1,
 "setup_cmd": "./check build",
 "hooks": {
   "guard": "cargo feature verif-hooks (fancy-regex/Cargo.toml)",
   "enable": "path dependency fancy-regex = { path = \"/repo\", features = [\"verif-hooks\"] } in /verif/sim/Cargo.toml; hook code in /repo/src/verif.rs plus #[cfg(feature = \"verif-hooks\")] lines added to src/vm.rs and src/lib.rs",
   "baseline_off_cmd": "cd /repo && cargo test --workspace --no-fail-fast --offline",
   "source_commits": hook_commits,
   "add_only": True,
 },
 "engines": [{
   "name": "frsim",
   "path": "/verif/sim",
   "serves_properties": claimed,
   "kind_free_text": "deterministic simulator: seeded baton scheduler over real threads, limit-abort fault injector, whole-copy reference models, replay files",
 }, {
   "name": "frmiri",
   "path": "/verif/miri",
   "serves_properties": ["C18"],
   "kind_free_text": "3-thread scenario over the shipped library interpreted by Miri (cargo +nightly miri) with -Zmiri-many-seeds: seeded scheduler at basic-block granularity, data-race / aliasing detector; replay = Miri seed",
 }],
 "checks": checks,
 "not_applicable": sorted(na, key=lambda x: x["property_id"]),
 "notes": "All checks rebuild /verif/sim against /repo's working tree (cargo path dependency). VERIF_SEED (default 1) seeds every random choice. Exit 2 = harness error. Known findings: /verif/known_findings.json.",
}
json.dump(m, open("/verif/MANIFEST.json", "w"), indent=1)
print("wrote MANIFEST.json with", claimed)
