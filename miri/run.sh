#!/bin/bash
# C18 Miri slice: runs /verif/miri (frmiri) under Miri's seeded scheduler + data-race detector.
#   run.sh slice <first_seed> <n_seeds> <scenario...>   many seeds per scenario; merges a "miri_slice" block into
#                                                       evidence/C18.json unless NO_EVIDENCE=1
#   run.sh replay <scenario> <seed> [rate]              one exact execution
# Exit 0 clean, 1 violation (VIOLATION line printed), 2 harness error.
set -u
HERE="$(cd "$(dirname "$0")" && pwd)"
VERIF="$(dirname "$HERE")"
cd "$HERE"
export CARGO_NET_OFFLINE=true
RATE="${MIRI_PREEMPTION_RATE:-0.1}"
# isolation stays on: the program touches no clock, file or environment
BASEFLAGS="-Zmiri-preemption-rate=$RATE"
# Wall-clock limits exist only so that a livelocked interpreted program cannot hang the check; a
# normal execution takes a few seconds, a whole batch about a minute.
ONE_TIMEOUT="${MIRI_ONE_TIMEOUT:-150}"

# reference results (every call alone on a fresh regex), computed by the same program built natively
native_solo() {
  cargo build --release --offline >/dev/null 2>"$HERE/.native.log" || { tail -20 "$HERE/.native.log" >&2; echo "harness error: native build of frmiri failed" >&2; exit 2; }
  "$HERE/../target-miri/release/frmiri" solo "$1"
}

mode="${1:-}"; shift || true
case "$mode" in
  build)
    # `cargo miri` has no build subcommand: prepare the sysroot here, the program itself is built by
    # the first `miri run`
    cargo +nightly miri setup >/dev/null 2>"$HERE/.build.log" || { tail -20 "$HERE/.build.log" >&2; echo "harness error: cargo miri setup failed" >&2; exit 2; }
    exit 0 ;;
  replay)
    sc="$1"; seed="$2"; RATE="${3:-$RATE}"
    exp=$(native_solo "$sc") || exit 2
    out=$(MIRIFLAGS="-Zmiri-preemption-rate=$RATE -Zmiri-seed=$seed" timeout "$ONE_TIMEOUT" cargo +nightly miri run --offline -- "$sc" "$exp" 2>&1); code=$?
    if [ $code -eq 124 ]; then
      echo "error: execution did not terminate within ${ONE_TIMEOUT}s under Miri seed $seed (a normal execution takes seconds): a thread spins or waits forever"
      exit 1
    fi
    if [ $code -ne 0 ]; then
      echo "$out" | grep -E "^error|C18-MISMATCH|Data race|deadlock" | head -5
      exit 1
    fi
    echo "miri replay scenario=$sc seed=$seed: clean"; exit 0 ;;
  slice) ;;
  *) echo "usage: run.sh build | slice <first_seed> <n_seeds> <scenario...> | replay <scenario> <seed>" >&2; exit 2 ;;
esac

first="$1"; n="$2"; shift 2
last=$((first + n))
BATCH_TIMEOUT="${MIRI_BATCH_TIMEOUT:-$((90 + 12 * n))}"
mkdir -p "$VERIF/replays"
t0=$(date +%s.%N)
viol=0; total=0; summary="["
for sc in "$@"; do
  log="$HERE/.slice_$sc.log"
  exp=$(native_solo "$sc") || exit 2
  MIRIFLAGS="$BASEFLAGS -Zmiri-many-seeds=$first..$last" timeout "$BATCH_TIMEOUT" cargo +nightly miri run --offline -- "$sc" "$exp" >"$log" 2>&1
  code=$?
  tried=$(grep -c "^Trying seed:" "$log")
  total=$((total + tried))
  failing=$(grep -oE "FAILING SEED: [0-9]+" "$log" | awk '{print $3}' | sort -n | tr '\n' ' ')
  if [ $code -eq 124 ] && [ -z "$failing" ]; then
    # the batch did not finish: some execution never terminates. Find one by running the seeds
    # one at a time under the per-execution limit.
    pkill -f "frmiri" 2>/dev/null
    for seed in $(seq "$first" $((last - 1))); do
      if ! "$HERE/run.sh" replay "$sc" "$seed" "$RATE" >/dev/null 2>&1; then failing="$seed"; echo "error: execution did not terminate (or failed) under Miri seed $seed" >> "$log"; break; fi
    done
    if [ -z "$failing" ]; then
      echo "harness error: Miri batch for scenario $sc exceeded ${BATCH_TIMEOUT}s but every seed terminates alone (machine overloaded?)" >&2
      exit 2
    fi
  fi
  if [ $code -ne 0 ] && [ -z "$failing" ]; then
    if [ "$tried" = 0 ]; then
      tail -20 "$log" >&2
      echo "harness error: Miri did not run (scenario $sc)" >&2
      exit 2
    fi
  fi
  for seed in $failing; do
    rp="$VERIF/replays/C18-miri-s$sc-$seed.json"
    # report only after the exact execution reproduced in a fresh process; its output is the detail
    if rout=$("$HERE/run.sh" replay "$sc" "$seed" "$RATE" 2>&1); then
      echo "harness error: Miri seed $seed (scenario $sc) failed in the batch but not on replay" >&2
      exit 2
    fi
    what=$(echo "$rout" | head -1 | cut -c1-300 | tr -d '"\\')
    printf '{"property":"C18","class":"miri","detail":"%s","seed":%s,"case":{"kind":"miri","scenario":%s,"seed":%s,"preemption_rate":"%s"}}\n' "$what" "$seed" "$sc" "$seed" "$RATE" > "$rp"
    echo "violation class=miri detail=scenario $sc, Miri seed $seed: $what"
    echo "VIOLATION property=C18 replay=$rp"
    viol=$((viol + 1))
    break
  done
  summary="$summary{\"scenario\":$sc,\"seeds_tried\":$tried,\"failing_seeds\":\"$failing\"},"
  [ $viol -gt 0 ] && break
done
t1=$(date +%s.%N)
summary="${summary%,}]"
if [ "${NO_EVIDENCE:-0}" != 1 ] && [ -f "$VERIF/evidence/C18.json" ]; then
  python3 - "$VERIF/evidence/C18.json" "$summary" "$first" "$last" "$RATE" "$(echo "$t1 - $t0" | bc)" "$total" "$viol" <<'EOF'
import json, sys
path, summary, first, last, rate, wall, total, viol = sys.argv[1:9]
e = json.load(open(path))
e["coverage"]["miri_slice"] = {
  "what": "frmiri (scenarios 0-3: 3 caller threads, shared Arc<Regex> + one clone made concurrently, 4 API calls each; 4: handles and results of one regex family dropped on different threads; 5: every thread replaces and expands with its own $-template; self-reference oracle) interpreted by Miri: seeded scheduler preempting at basic-block granularity, data-race and aliasing detector on",
  "seeds": f"{first}..{last} per scenario", "preemption_rate": rate,
  "scenarios": json.loads(summary), "executions": int(total), "wall_s": float(wall),
  "real_vs_stub": {"real": ["fancy_regex as shipped (default-features off, std on: no hooks)", "regex-automata incl. its cache pool"], "stubbed": ["the OS scheduler and the CPU: replaced by Miri's interpreter and its seeded scheduler"]},
}
e["violations"] = int(e.get("violations", 0)) + int(viol)
json.dump(e, open(path, "w"), indent=2)
EOF
fi
echo "C18 miri slice: $total executions (seeds $first..$last, scenarios $*), $viol violation(s), $(printf '%.0f' "$(echo "$t1 - $t0" | bc)")s"
[ $viol -eq 0 ]
