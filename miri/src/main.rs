//! C18, second deterministic scheduler: the same kind of scenario as the baton simulator runs
//! (caller threads searching one shared `Regex`, self-reference oracle), but interpreted by Miri,
//! whose seeded scheduler can preempt a thread at every basic block — not only at the hook yield
//! points — and whose data-race detector reports conflicting unsynchronised accesses (the symptom of
//! an `unsafe impl Sync` around shared scratch state). One Miri seed = one exactly repeatable
//! execution; the seed is the replay file.
//!
//! Exit: 0 all results equal the solo results; 1 mismatch (Miri itself exits non-zero on UB / data
//! race / deadlock and prints the seed).

use fancy_regex::{Captures, Regex};
use std::sync::Arc;
use std::thread;

fn show(c: Option<Captures<'_>>) -> String {
    match c {
        None => "-".to_string(),
        Some(c) => (0..c.len())
            .map(|i| match c.get(i) {
                Some(m) => format!("({},{})", m.start(), m.end()),
                None => "_".to_string(),
            })
            .collect::<Vec<_>>()
            .join(""),
    }
}

fn op(re: &Regex, kind: usize, text: &str) -> String {
    match kind % 7 {
        5 => {
            let mut out = String::new();
            for piece in re.splitn(text, 4) {
                match piece {
                    Ok(p) => out.push_str(&format!("[{}]", p)),
                    Err(e) => out.push_str(&format!("Err({:?})", e)),
                }
            }
            out
        }
        6 => {
            // every group of every match, through the sub-capture iterator
            let mut out = String::new();
            for c in re.captures_iter(text).take(4) {
                match c {
                    Ok(c) => {
                        for g in c.iter() {
                            match g {
                                Some(m) => out.push_str(&format!("({},{})", m.start(), m.end())),
                                None => out.push('_'),
                            }
                        }
                        out.push(';');
                    }
                    Err(e) => out.push_str(&format!("Err({:?})", e)),
                }
            }
            format!("{} {:?}", out, re.as_str())
        }
        4 => {
            // group metadata (the shared name table) and access by name
            let names: Vec<String> = re.capture_names().map(|n| n.unwrap_or("_").to_string()).collect();
            let by_name = match re.captures(text) {
                Ok(Some(c)) => names
                    .iter()
                    .map(|n| match c.name(n) {
                        Some(m) => format!("{}=({},{})", n, m.start(), m.end()),
                        None => format!("{}=_", n),
                    })
                    .collect::<Vec<_>>()
                    .join(","),
                Ok(None) => "-".to_string(),
                Err(e) => format!("Err({:?})", e),
            };
            format!("{:?} {} len={}", names, by_name, re.captures_len())
        }
        0 => match re.captures(text) {
            Ok(c) => show(c),
            Err(e) => format!("Err({:?})", e),
        },
        1 => match re.find(text) {
            Ok(m) => format!("{:?}", m.map(|m| (m.start(), m.end()))),
            Err(e) => format!("Err({:?})", e),
        },
        2 => {
            let mut out = String::new();
            for m in re.find_iter(text).take(6) {
                match m {
                    Ok(m) => out.push_str(&format!("({},{})", m.start(), m.end())),
                    Err(e) => out.push_str(&format!("Err({:?})", e)),
                }
            }
            out
        }
        _ => match re.try_replacen(text, 0, "<$0>") {
            Ok(s) => s.into_owned(),
            Err(e) => format!("Err({:?})", e),
        },
    }
}

/// Scenario 4 — ownership across threads: results outlive the regex they came from, and the last
/// handles of a regex family (the original, a clone, the `Captures` each produced) are dropped on
/// different threads at overlapping times.
fn drop_race(solo_mode: bool, expected: Option<Vec<Vec<String>>>) {
    let pattern = r"(?<k>[a-z]+)=(?<v>[0-9]+)(?!x)";
    let texts = ["ab=12", "q=7 r=8"];
    fn read(c: Captures<'_>) -> String {
        let k = c.name("k").map(|m| m.as_str().to_string());
        let v = c.name("v").map(|m| m.as_str().to_string());
        format!("{:?} {:?} {}", k, v, c.len())
    }
    fn work(re: Regex, text: &str) -> String {
        // take the captures, give the regex up, then read (and drop) the captures
        let caps = re.captures(text);
        drop(re);
        match caps {
            Ok(Some(c)) => read(c),
            Ok(None) => "-".to_string(),
            Err(e) => format!("Err({:?})", e),
        }
    }
    if solo_mode {
        let a = work(Regex::new(pattern).expect("pattern compiles"), texts[0]);
        let b = work(Regex::new(pattern).expect("pattern compiles"), texts[1]);
        print!("{}\u{2}{}", a, b);
        return;
    }
    let original = Regex::new(pattern).expect("pattern compiles");
    let c1 = original.clone();
    let c2 = original.clone();
    let h1 = thread::spawn(move || work(c1, "ab=12"));
    let h2 = thread::spawn(move || work(c2, "q=7 r=8"));
    // the original goes away while the clones and their results are still in use elsewhere
    drop(original);
    let got = vec![h1.join().ok(), h2.join().ok()];
    let fresh: Vec<String> = match &expected {
        Some(e) => e.iter().map(|v| v.join("\u{1}")).collect(),
        None => vec![
            work(Regex::new(pattern).expect("pattern compiles"), texts[0]),
            work(Regex::new(pattern).expect("pattern compiles"), texts[1]),
        ],
    };
    let mut bad = false;
    for (t, g) in got.into_iter().enumerate() {
        if g.as_deref() != fresh.get(t).map(|s| s.as_str()) {
            eprintln!("C18-MISMATCH scenario 4 thread {}: concurrent {:?} solo {:?}", t, g, fresh.get(t));
            bad = true;
        }
    }
    if bad {
        std::process::exit(1);
    }
}

/// Scenario 5 — replacement templates: every thread replaces through the same regex family (two on
/// the shared handle, one on a clone made in-thread) with its OWN `$`-template, directly through
/// `Captures::expand` as well. Whatever a regex, its clones and their `Captures` share must not
/// carry one caller's template into another caller's output.
fn templates(solo_mode: bool, expected: Option<Vec<Vec<String>>>) {
    let pattern = r"(?<k>[a-z])(?<v>[0-9])";
    const TEMPLATES: [&str; 3] = ["$v:$k", "<${k}>", "$2$1$0"];
    const TEXTS: [&str; 3] = ["a1 b2 c3", "x9y8", "q0"];
    fn work(re: &Regex, t: usize) -> Vec<String> {
        let tmpl = TEMPLATES[t];
        let mut v = Vec::new();
        v.push(match re.try_replacen(TEXTS[t % 3], 0, tmpl) {
            Ok(s) => s.into_owned(),
            Err(e) => format!("Err({:?})", e),
        });
        v.push(match re.captures(TEXTS[(t + 1) % 3]) {
            Ok(Some(c)) => {
                let mut dst = String::new();
                // cheap calls, many of them: the window between two callers' templates is small
                for _ in 0..6 {
                    c.expand(tmpl, &mut dst);
                }
                dst
            }
            Ok(None) => "-".to_string(),
            Err(e) => format!("Err({:?})", e),
        });
        v.push(match re.try_replacen(TEXTS[(t + 2) % 3], 2, tmpl) {
            Ok(s) => s.into_owned(),
            Err(e) => format!("Err({:?})", e),
        });
        v
    }
    if solo_mode {
        let lines: Vec<String> =
            (0..3).map(|t| work(&Regex::new(pattern).expect("pattern compiles"), t).join("\u{1}")).collect();
        print!("{}", lines.join("\u{2}"));
        return;
    }
    let re = Arc::new(Regex::new(pattern).expect("pattern compiles"));
    let mut handles = Vec::new();
    for t in 0..3 {
        let shared = re.clone();
        handles.push(thread::spawn(move || {
            if t == 2 {
                let own = (*shared).clone();
                drop(shared);
                work(&own, t)
            } else {
                work(&shared, t)
            }
        }));
    }
    let results: Vec<Option<Vec<String>>> = handles.into_iter().map(|h| h.join().ok()).collect();
    let mut bad = false;
    for (t, got) in results.into_iter().enumerate() {
        let solo: Vec<String> = match &expected {
            Some(e) => e.get(t).cloned().unwrap_or_default(),
            None => work(&Regex::new(pattern).expect("pattern compiles"), t),
        };
        if got.as_ref() != Some(&solo) {
            eprintln!("C18-MISMATCH scenario 5 thread {}: concurrent {:?} solo {:?}", t, got, solo);
            bad = true;
        }
    }
    if bad {
        std::process::exit(1);
    }
}

/// Which operation thread `t` performs as its `k`-th: the first operation of threads 0 and 2 is the
/// metadata one (first concurrent use of anything lazily built), the rest rotate through the API.
fn kind_of(t: usize, k: usize, which: usize) -> usize {
    if k == 0 {
        4
    } else {
        t + k + which
    }
}

fn main() {
    // argv: <scenario> [<expected>]   run the threads; compare with <expected> when given (the
    //                                  runner computes it natively with `solo`, which halves the
    //                                  interpreted work), otherwise with a second, fresh regex
    //       solo <scenario>            print the reference results (every call alone on a fresh
    //                                  regex, single-threaded) in the encoding `run` expects
    // Kept tiny: Miri interprets every instruction.
    let args: Vec<String> = std::env::args().skip(1).collect();
    let solo_mode = args.first().map(|s| s.as_str()) == Some("solo");
    let which: usize = args.get(if solo_mode { 1 } else { 0 }).and_then(|s| s.parse().ok()).unwrap_or(0);
    let expected: Option<Vec<Vec<String>>> = if solo_mode {
        None
    } else {
        args.get(1).map(|e| e.split('\u{2}').map(|t| t.split('\u{1}').map(|x| x.to_string()).collect()).collect())
    };
    // (pattern, texts): a VM program with a capture-carrying Delegate, a backreference program,
    // and a pattern delegated as a whole (regex-automata's cache pool)
    let scenarios: [(&str, [&str; 3]); 4] = [
        (r"(?<y>[0-9][0-9])-(?<m>[0-9])(?![0-9])", ["12-3", "x 45-6 y", "78-90 1-2"]),
        (r"(a+)b\1", ["aabaa", "abab", "aaab"]),
        (r"([a-z])-([a-z])", ["a-b", "--c-d", "zz"]),
        (r"(?<w>[a-z]+)(?<n>[0-9])?(?=!)", ["ab1!", "x! y2!", "zz"]),
    ];
    if which == 4 {
        drop_race(solo_mode, expected);
        return;
    }
    if which == 5 {
        templates(solo_mode, expected);
        return;
    }
    let (pattern, texts) = scenarios[which % scenarios.len()];
    // The regex the threads share is NOT touched before they start: whatever it builds lazily is
    // built under concurrency. The reference results come from a second, fresh regex (below).
    let n_threads = 3;
    let ops_per_thread = 4;
    let solo_of = |fresh: &Regex, t: usize| -> Vec<String> {
        (0..ops_per_thread).map(|k| op(fresh, kind_of(t, k, which), texts[(t + k) % texts.len()])).collect()
    };
    if solo_mode {
        let lines: Vec<String> = (0..n_threads)
            .map(|t| solo_of(&Regex::new(pattern).expect("pattern compiles"), t).join("\u{1}"))
            .collect();
        print!("{}", lines.join("\u{2}"));
        return;
    }
    let re = Arc::new(Regex::new(pattern).expect("pattern compiles"));
    let mut handles = Vec::new();
    for t in 0..n_threads {
        // thread 2 works through a clone made while the others may already be searching
        let shared = re.clone();
        handles.push(thread::spawn(move || {
            let own;
            let r: &Regex = if t == 2 {
                own = (*shared).clone();
                &own
            } else {
                &shared
            };
            let mut v = Vec::new();
            for k in 0..ops_per_thread {
                v.push(op(r, kind_of(t, k, which), texts[(t + k) % texts.len()]));
            }
            v
        }));
    }
    let results: Vec<Option<Vec<String>>> = handles.into_iter().map(|h| h.join().ok()).collect();
    // solo reference: given by the runner, or every call alone on a freshly compiled regex
    let fresh = if expected.is_none() { Some(Regex::new(pattern).expect("pattern compiles")) } else { None };
    let mut bad = false;
    for (t, got) in results.into_iter().enumerate() {
        let solo: Vec<String> = match (&expected, &fresh) {
            (Some(e), _) => e.get(t).cloned().unwrap_or_default(),
            (None, Some(f)) => solo_of(f, t),
            (None, None) => unreachable!(),
        };
        match got {
            Some(v) => {
                if v != solo {
                    eprintln!("C18-MISMATCH scenario {} thread {}: concurrent {:?} solo {:?}", which, t, v, solo);
                    bad = true;
                }
            }
            None => {
                eprintln!("C18-MISMATCH scenario {} thread {} panicked", which, t);
                bad = true;
            }
        }
    }
    if bad {
        std::process::exit(1);
    }
}
