//! C18, second deterministic scheduler: the same kind of scenario as the baton simulator runs
//! (caller threads searching one shared `Regex`, self-reference oracle), but interpreted by Miri,
//! whose seeded scheduler can preempt a thread at every basic block — not only at the hook yield
//! points — and whose data-race detector reports conflicting unsynchronised accesses (the symptom of
//! an `unsafe impl Sync` around shared scratch state). One Miri seed = one exactly repeatable
//! execution; the seed is the replay file.
//!
//! Exit: 0 all results equal the solo results; 1 mismatch (Miri itself exits non-zero on UB / data
//! race / deadlock and prints the seed).

use fancy_regex::{Captures, Regex};
use std::sync::Arc;
use std::thread;

fn show(c: Option<Captures<'_>>) -> String {
    match c {
        None => "-".to_string(),
        Some(c) => (0..c.len())
            .map(|i| match c.get(i) {
                Some(m) => format!("({},{})", m.start(), m.end()),
                None => "_".to_string(),
            })
            .collect::<Vec<_>>()
            .join(""),
    }
}

fn op(re: &Regex, kind: usize, text: &str) -> String {
    match kind % 5 {
        4 => {
            // group metadata (the shared name table) and access by name
            let names: Vec<String> = re.capture_names().map(|n| n.unwrap_or("_").to_string()).collect();
            let by_name = match re.captures(text) {
                Ok(Some(c)) => names
                    .iter()
                    .map(|n| match c.name(n) {
                        Some(m) => format!("{}=({},{})", n, m.start(), m.end()),
                        None => format!("{}=_", n),
                    })
                    .collect::<Vec<_>>()
                    .join(","),
                Ok(None) => "-".to_string(),
                Err(e) => format!("Err({:?})", e),
            };
            format!("{:?} {} len={}", names, by_name, re.captures_len())
        }
        0 => match re.captures(text) {
            Ok(c) => show(c),
            Err(e) => format!("Err({:?})", e),
        },
        1 => match re.find(text) {
            Ok(m) => format!("{:?}", m.map(|m| (m.start(), m.end()))),
            Err(e) => format!("Err({:?})", e),
        },
        2 => {
            let mut out = String::new();
            for m in re.find_iter(text).take(6) {
                match m {
                    Ok(m) => out.push_str(&format!("({},{})", m.start(), m.end())),
                    Err(e) => out.push_str(&format!("Err({:?})", e)),
                }
            }
            out
        }
        _ => match re.try_replacen(text, 0, "<$0>") {
            Ok(s) => s.into_owned(),
            Err(e) => format!("Err({:?})", e),
        },
    }
}

/// Which operation thread `t` performs as its `k`-th: the first operation of threads 0 and 2 is the
/// metadata one (first concurrent use of anything lazily built), the rest rotate through the API.
fn kind_of(t: usize, k: usize, which: usize) -> usize {
    if k == 0 && t != 1 {
        4
    } else {
        t + k + which
    }
}

fn main() {
    // which scenario: argv[1] (default 0). Kept tiny: Miri interprets every instruction.
    let which: usize = std::env::args().nth(1).and_then(|s| s.parse().ok()).unwrap_or(0);
    // (pattern, texts): a VM program with a capture-carrying Delegate, a backreference program,
    // and a pattern delegated as a whole (regex-automata's cache pool)
    let scenarios: [(&str, [&str; 3]); 4] = [
        (r"(?<y>[0-9][0-9])-(?<m>[0-9])(?![0-9])", ["12-3", "x 45-6 y", "78-90 1-2"]),
        (r"(a+)b\1", ["aabaa", "abab", "aaab"]),
        (r"([a-z])-([a-z])", ["a-b", "--c-d", "zz"]),
        (r"(?<w>[a-z]+)(?<n>[0-9])?(?=!)", ["ab1!", "x! y2!", "zz"]),
    ];
    let (pattern, texts) = scenarios[which % scenarios.len()];
    let re = Arc::new(Regex::new(pattern).expect("pattern compiles"));
    let n_threads = 3;
    let ops_per_thread = 2;
    // solo reference: every call alone, before any thread exists
    let mut solo = Vec::new();
    for t in 0..n_threads {
        let mut v = Vec::new();
        for k in 0..ops_per_thread {
            v.push(op(&re, kind_of(t, k, which), texts[(t + k) % texts.len()]));
        }
        solo.push(v);
    }
    let mut handles = Vec::new();
    for t in 0..n_threads {
        // thread 2 works through a clone made while the others may already be searching
        let shared = re.clone();
        handles.push(thread::spawn(move || {
            let own;
            let r: &Regex = if t == 2 {
                own = (*shared).clone();
                &own
            } else {
                &shared
            };
            let mut v = Vec::new();
            for k in 0..ops_per_thread {
                v.push(op(r, kind_of(t, k, which), texts[(t + k) % texts.len()]));
            }
            v
        }));
    }
    let mut bad = false;
    for (t, h) in handles.into_iter().enumerate() {
        match h.join() {
            Ok(v) => {
                if v != solo[t] {
                    eprintln!("C18-MISMATCH scenario {} thread {}: concurrent {:?} solo {:?}", which, t, v, solo[t]);
                    bad = true;
                }
            }
            Err(_) => {
                eprintln!("C18-MISMATCH scenario {} thread {} panicked", which, t);
                bad = true;
            }
        }
    }
    if bad {
        std::process::exit(1);
    }
}
