//! The whole-state-copy reference model of the VM's undo log, and the observer that shadows real
//! `vm::run` executions with it (C20 program level) and watches forward progress (C07).

use crate::rng::Fnv;
use fancy_regex::internal::Insn;
use fancy_regex::verif::{EndReason, Observer, RunInfo, StateOp, StateView};
use std::cell::RefCell;
use std::collections::{HashMap, HashSet};
use std::rc::Rc;

// ------------------------------------------------------------------------------------------------
// reference model: current values plus a stack of complete copies

#[derive(Clone, Debug, PartialEq, Eq)]
pub struct Checkpoint {
    pub pc: usize,
    pub ix: usize,
    pub slots: Vec<usize>,
    pub aux: Vec<usize>,
    /// pc of the instruction that created this alternative (program-level shadowing only)
    pub creator: usize,
}

#[derive(Clone, Debug)]
pub struct Model {
    pub slots: Vec<usize>,
    pub aux: Vec<usize>,
    pub stack: Vec<Checkpoint>,
    pub max_stack: usize,
}

impl Model {
    pub fn new(n_slots: usize, max_stack: usize) -> Model {
        Model {
            slots: vec![usize::MAX; n_slots],
            aux: Vec::new(),
            stack: Vec::new(),
            max_stack,
        }
    }
    pub fn depth(&self) -> usize {
        self.stack.len()
    }
    /// create an alternative; false = no capacity, nothing changes
    pub fn push(&mut self, pc: usize, ix: usize, creator: usize) -> bool {
        if self.stack.len() < self.max_stack {
            self.stack.push(Checkpoint {
                pc,
                ix,
                slots: self.slots.clone(),
                aux: self.aux.clone(),
                creator,
            });
            true
        } else {
            false
        }
    }
    /// abandon: everything reverts to the copy taken when the alternative was created
    pub fn pop(&mut self) -> Option<(usize, usize)> {
        let c = self.stack.pop()?;
        self.slots = c.slots;
        self.aux = c.aux;
        Some((c.pc, c.ix))
    }
    pub fn save(&mut self, slot: usize, val: usize) {
        self.slots[slot] = val;
    }
    /// commit: keep the current values, forget the alternatives above `count`
    pub fn cut(&mut self, count: usize) {
        self.stack.truncate(count);
    }
}

/// Compare the real state (through its read-only view) with the model. None = equal.
pub fn compare(view: &StateView<'_>, m: &Model) -> Option<(&'static str, String)> {
    if view.depth() != m.depth() {
        return Some((
            "depth-mismatch",
            format!("real depth {} model depth {}", view.depth(), m.depth()),
        ));
    }
    if view.slots() != &m.slots[..] {
        return Some((
            "slot-mismatch",
            format!("real slots {:?} model slots {:?}", view.slots(), m.slots),
        ));
    }
    if view.aux() != &m.aux[..] {
        return Some((
            "aux-mismatch",
            format!("real aux {:?} model aux {:?}", view.aux(), m.aux),
        ));
    }
    None
}

// ------------------------------------------------------------------------------------------------
// observer

#[derive(Clone, Debug, Default)]
pub struct ShadowStats {
    pub runs: u64,
    pub insns: u64,
    pub ops: u64,
    pub pops: u64,
    pub cuts: u64,
    /// commits that discarded at least one alternative
    pub cuts_nonempty: u64,
    /// commits that discarded two or more alternatives
    pub cuts_multi: u64,
    /// rollbacks that happened after a commit in the same run and changed at least one slot
    pub rollback_after_cut: u64,
    pub atomic_commits_checked: u64,
    pub neglook_unwinds_checked: u64,
    pub neglook_group_checks: u64,
    pub capture_reads_checked: u64,
    pub commit_brackets_checked: u64,
    pub epsilon_guard_fired: u64,
    pub max_depth: usize,
    pub max_aux: usize,
    pub configs_checked: u64,
    pub model_capped: u64,
    pub progress_capped: u64,
}

#[derive(Clone, Debug, Default)]
pub struct ShadowResult {
    /// first violation found: (class, detail)
    pub found: Option<(String, String)>,
    /// set when the marker popped by an EndAtomic was pushed by a conditional's BeginAtomic whose
    /// false path was taken (the recorded known finding); detail string
    pub leaked_cond_marker: Option<String>,
    pub stats: ShadowStats,
}

/// The progress monitor stops watching a run once it holds this many distinct loop-head
/// configurations (counted in `progress_capped`); sound, loses coverage on very long runs only.
pub const PROGRESS_CONFIG_CAP: usize = 1_000_000;

pub const ABORT_PAYLOAD: &str = "frsim-shadow-abort";

/// The whole-copy model costs O(depth) per checkpoint; beyond this branch-stack depth the model
/// comparison is switched off for the rest of the run (counted in `model_capped`). Sound: it only
/// loses coverage on very deep runs, it cannot raise an alarm.
pub const MODEL_DEPTH_CAP: usize = 2048;

pub struct Shadow {
    pub res: Rc<RefCell<ShadowResult>>,
    check_model: bool,
    check_model_cfg: bool,
    check_progress: bool,
    // per run
    model: Model,
    n_slots: usize,
    end_to_begin: HashMap<usize, usize>,
    cond_begins: HashSet<usize>,
    failneg_split: HashMap<usize, usize>,
    cur_pc: usize,
    cur_is_begin: bool,
    cur_is_end: bool,
    /// aux stack tags parallel to model.aux: (begin pc, depth at begin)
    aux_tags: Vec<(usize, usize)>,
    aux_tag_stack: Vec<Vec<(usize, usize)>>,
    /// the shadow's own record of open atomic groups, independent of where the VM keeps its
    /// marks: (pc of the BeginAtomic, branch depth when it executed); rolled back and committed
    /// with the model's checkpoints
    marks: Vec<(usize, usize)>,
    marks_stack: Vec<Vec<(usize, usize)>>,
    /// the alternative the instruction being executed has to create: (pc it resumes at, position)
    expect_push: Option<(usize, usize, usize)>,
    expected_cut: Option<usize>,
    failneg_target: Option<usize>,
    /// what the instruction that reads a capture position (Backref, BackrefExistsCondition) has to
    /// do given the state's values of this moment: Some((pc, ix)) it goes on there, None it fails
    expect_read: Option<(usize, Option<(usize, usize)>)>,
    /// the text of the run (reads of capture positions are judged against it)
    text: String,
    cut_seen: bool,
    /// progress monitor: (pc, ix, slots) -> (logical time, branch depth, aux height) of the
    /// latest visit of a loop-head instruction in this run
    visited: HashMap<(u64, u64), (u64, usize, usize)>,
    /// low_d[h] / low_a[h] = latest logical time at which the branch-stack depth / the aux stack
    /// height became smaller than h
    low_d: Vec<u64>,
    low_a: Vec<u64>,
    cur_d: usize,
    cur_a: usize,
    /// pcs that can close a cycle: every static jump / split / repeat target
    heads: HashSet<usize>,
    clock: u64,
    progress_off: bool,
    last_epsilon: Option<(usize, usize)>,
    text_len: usize,
    dead: bool,
    /// commit brackets: (id, group number of the marker before the construct, of the marker after)
    brackets: Vec<(usize, usize, usize)>,
    /// per bracket pair: branch depth when the marker before the construct last executed
    bracket_depth: Vec<Option<usize>>,
}

impl Shadow {
    /// Marker groups `(?<zbN>)` / `(?<zeN>)` around constructs that commit (atomic group,
    /// possessive quantifier, negative look-around). When the construct is left, exactly the alternatives
    /// alive when it was entered may be alive: every alternative created inside has been
    /// discarded, none older. This is the statement's commit clause observed at the level of the
    /// pattern: it does not depend on which instructions the construct was compiled to, so it
    /// also holds (and is checked) when the compiler leaves BeginAtomic / EndAtomic out.
    pub fn set_brackets(&mut self, brackets: Vec<(usize, usize, usize)>) {
        self.bracket_depth = vec![None; brackets.len()];
        self.brackets = brackets;
    }

    fn bracket_event(&mut self, group_lo: usize, group_hi: usize, slot: Option<usize>, pc: usize, depth: usize) {
        // `slot` = Some(s): a Save of slot s; None: a Delegate that fills groups group_lo..group_hi
        for k in 0..self.brackets.len() {
            let (id, gb, ge) = self.brackets[k];
            let is_begin = match slot {
                Some(s) => s == 2 * gb + 1,
                None => group_lo <= gb && gb < group_hi,
            };
            let is_end = match slot {
                Some(s) => s == 2 * ge,
                None => group_lo <= ge && ge < group_hi,
            };
            if is_begin {
                self.bracket_depth[k] = Some(depth);
            }
            if is_end {
                if let Some(d) = self.bracket_depth[k] {
                    self.res.borrow_mut().stats.commit_brackets_checked += 1;
                    if depth != d {
                        self.fail(
                            "commit-leaves-alternatives",
                            format!(
                                "the committing construct between the markers zb{} / ze{} was entered with {} alternatives alive and left (pc {}) with {}: {}",
                                id, id, d, pc, depth,
                                if depth > d { "alternatives created inside it survived its commit" } else { "it discarded alternatives older than itself" }
                            ),
                        );
                    }
                }
            }
        }
    }

    pub fn new(check_model: bool, check_progress: bool) -> (Shadow, Rc<RefCell<ShadowResult>>) {
        let res = Rc::new(RefCell::new(ShadowResult::default()));
        (
            Shadow {
                res: res.clone(),
                check_model,
                check_model_cfg: check_model,
                check_progress,
                model: Model::new(0, 0),
                n_slots: 0,
                end_to_begin: HashMap::new(),
                cond_begins: HashSet::new(),
                failneg_split: HashMap::new(),
                cur_pc: 0,
                cur_is_begin: false,
                cur_is_end: false,
                aux_tags: Vec::new(),
                aux_tag_stack: Vec::new(),
                marks: Vec::new(),
                marks_stack: Vec::new(),
                expect_push: None,
                expected_cut: None,
                failneg_target: None,
                expect_read: None,
                text: String::new(),
                cut_seen: false,
                visited: HashMap::new(),
                low_d: Vec::new(),
                low_a: Vec::new(),
                cur_d: 0,
                cur_a: 0,
                heads: HashSet::new(),
                clock: 0,
                progress_off: false,
                last_epsilon: None,
                text_len: 0,
                dead: false,
                brackets: Vec::new(),
                bracket_depth: Vec::new(),
            },
            res,
        )
    }

    fn reset_progress(&mut self, prog: &[Insn]) {
        self.visited = HashMap::new();
        self.low_d.clear();
        self.low_a.clear();
        self.cur_d = 0;
        self.cur_a = 0;
        self.clock = 0;
        self.progress_off = false;
        self.heads.clear();
        for (pc, insn) in prog.iter().enumerate() {
            match insn {
                Insn::Jmp(t) => {
                    self.heads.insert(*t);
                }
                Insn::Split(x, y) => {
                    self.heads.insert(*x);
                    self.heads.insert(*y);
                }
                Insn::RepeatGr { next, .. }
                | Insn::RepeatNg { next, .. }
                | Insn::RepeatEpsilonGr { next, .. }
                | Insn::RepeatEpsilonNg { next, .. } => {
                    self.heads.insert(*next);
                    self.heads.insert(pc + 1);
                    self.heads.insert(pc);
                }
                _ => {}
            }
        }
    }

    /// Record that a stack went from height `prev` to `new` at the current logical time.
    fn note_height(low: &mut Vec<u64>, prev: usize, new: usize, t: u64) {
        if new < prev {
            if low.len() < prev + 1 {
                low.resize(prev + 1, 0);
            }
            for h in new + 1..=prev {
                low[h] = t;
            }
        }
    }

    fn fail(&mut self, class: &str, detail: String) {
        let mut r = self.res.borrow_mut();
        if r.found.is_none() {
            r.found = Some((class.to_string(), detail));
        }
        drop(r);
        self.dead = true;
        // Abort the run: the machine may be spinning, and nothing after a divergence is meaningful.
        std::panic::panic_any(ABORT_PAYLOAD);
    }

    fn analyse_program(&mut self, prog: &[Insn]) {
        self.end_to_begin.clear();
        self.cond_begins.clear();
        self.failneg_split.clear();
        let mut open = Vec::new();
        for (pc, insn) in prog.iter().enumerate() {
            match insn {
                Insn::BeginAtomic => open.push(pc),
                Insn::EndAtomic => {
                    if let Some(b) = open.pop() {
                        self.end_to_begin.insert(pc, b);
                        // a conditional, exactly as compile_conditional lays it out:
                        //   b: BeginAtomic; Split(b+2, F); cond; EndAtomic; true; F-1: Jmp(T); F: false; T:
                        // with F beyond the End and the Jmp before F going forward over the false
                        // branch (a loop that jumps back to b has the same first two instructions
                        // and is not the listed call site)
                        if let Some(Insn::Split(x, y)) = prog.get(b + 1) {
                            let fwd_jmp = *y > 0 && matches!(prog.get(*y - 1), Some(Insn::Jmp(t)) if *t >= *y);
                            if *x == b + 2 && *y > pc && fwd_jmp {
                                self.cond_begins.insert(b);
                            }
                        }
                    }
                }
                Insn::FailNegativeLookAround => {
                    // its own Split is the nearest preceding Split whose second target is pc + 1
                    for s in (0..pc).rev() {
                        if let Insn::Split(_, y) = prog[s] {
                            if y == pc + 1 {
                                self.failneg_split.insert(pc, s);
                                break;
                            }
                        }
                    }
                }
                _ => {}
            }
        }
    }
}

fn config_hash(pc: usize, ix: usize, st: &StateView<'_>) -> (u64, u64) {
    let mut a = Fnv::new();
    let mut b = Fnv(0x9E37_79B9_7F4A_7C15);
    for h in [&mut a, &mut b] {
        h.u64(pc as u64);
        h.u64(ix as u64);
        for v in st.slots() {
            h.u64(*v as u64);
        }
    }
    (a.0, b.0.rotate_left(13) ^ 0x5555)
}

impl Observer for Shadow {
    fn run_begin(&mut self, info: &RunInfo<'_>) {
        self.dead = false;
        self.check_model = self.check_model_cfg;
        self.n_slots = info.n_slots;
        self.model = Model::new(info.n_slots, info.max_stack);
        self.analyse_program(info.prog);
        self.aux_tags.clear();
        self.aux_tag_stack.clear();
        self.marks.clear();
        self.marks_stack.clear();
        self.expect_push = None;
        self.expected_cut = None;
        self.failneg_target = None;
        self.expect_read = None;
        self.text.clear();
        self.text.push_str(info.text);
        self.cut_seen = false;
        self.reset_progress(info.prog);
        self.text_len = info.text.len();
        self.last_epsilon = None;
        self.cur_is_begin = false;
        self.cur_is_end = false;
        for d in self.bracket_depth.iter_mut() {
            *d = None;
        }
        self.res.borrow_mut().stats.runs += 1;
    }

    fn insn(&mut self, pc: usize, ix: usize, insn: &Insn, st: &StateView<'_>) {
        if self.dead {
            return;
        }
        self.cur_pc = pc;
        self.cur_is_begin = matches!(insn, Insn::BeginAtomic);
        self.cur_is_end = matches!(insn, Insn::EndAtomic);
        {
            let mut r = self.res.borrow_mut();
            r.stats.insns += 1;
            if st.depth() > r.stats.max_depth {
                r.stats.max_depth = st.depth();
            }
        }
        if self.check_model {
            if let Some((at, want)) = self.expect_read.take() {
                // the previous instruction read a capture position and went on
                if want != Some((pc, ix)) {
                    self.fail(
                        "capture-read-not-reverted",
                        format!(
                            "the instruction at pc {} reads a capture position; by the state's values of that moment (slots {:?}) it {}, but the VM went on at pc {} position {}: it used a value other than the one the state holds",
                            at,
                            self.model.slots,
                            match want {
                                Some((p, i)) => format!("continues at pc {} position {}", p, i),
                                None => "fails".to_string(),
                            },
                            pc,
                            ix
                        ),
                    );
                }
            }
            self.expect_read = match insn {
                Insn::Backref(slot) => {
                    let lo = self.model.slots.get(*slot).copied().unwrap_or(usize::MAX);
                    let hi = self.model.slots.get(*slot + 1).copied().unwrap_or(usize::MAX);
                    if lo == usize::MAX || hi == usize::MAX {
                        Some((pc, None))
                    } else if lo <= hi && self.text.is_char_boundary(lo) && self.text.is_char_boundary(hi) && hi <= self.text.len() {
                        let r = &self.text[lo..hi];
                        let end = ix + r.len();
                        let ok = end <= self.text.len() && self.text.as_bytes()[ix..end] == *r.as_bytes();
                        Some((pc, if ok { Some((pc + 1, end)) } else { None }))
                    } else {
                        None // a span the VM itself cannot slice: not judged here
                    }
                }
                Insn::BackrefExistsCondition(group) => {
                    let lo = self.model.slots.get(*group * 2).copied().unwrap_or(usize::MAX);
                    Some((pc, if lo == usize::MAX { None } else { Some((pc + 1, ix)) }))
                }
                _ => None,
            };
            if self.expect_read.is_some() {
                self.res.borrow_mut().stats.capture_reads_checked += 1;
            }
            if let Some((at, tpc, tix)) = self.expect_push.take() {
                self.fail(
                    "alternative-not-created",
                    format!(
                        "the branching instruction at pc {} went on without creating its alternative (resume at pc {}, position {}): a later backtrack cannot come back to this choice with the values of this moment",
                        at, tpc, tix
                    ),
                );
            }
            let rc_of = |slot: usize| st.raw_saves().get(slot).copied().unwrap_or(0);
            self.expect_push = match insn {
                Insn::Split(_, y) => Some((pc, *y, ix)),
                Insn::RepeatGr { lo, hi, next, repeat } => {
                    let rc = rc_of(*repeat);
                    if rc != *hi && rc >= *lo { Some((pc, *next, ix)) } else { None }
                }
                Insn::RepeatNg { lo, hi, repeat, .. } => {
                    let rc = rc_of(*repeat);
                    if rc != *hi && rc >= *lo { Some((pc, pc + 1, ix)) } else { None }
                }
                Insn::RepeatEpsilonGr { lo, next, repeat, check } => {
                    let rc = rc_of(*repeat);
                    if !(rc > *lo && rc_of(*check) == ix) && rc >= *lo { Some((pc, *next, ix)) } else { None }
                }
                Insn::RepeatEpsilonNg { lo, repeat, check, .. } => {
                    let rc = rc_of(*repeat);
                    if !(rc > *lo && rc_of(*check) == ix) && rc >= *lo { Some((pc, pc + 1, ix)) } else { None }
                }
                _ => None,
            };
            if let Some(e) = self.expected_cut.take() {
                // The previous instruction was an EndAtomic that popped its marker but never
                // committed: the alternatives created inside the group are still alive.
                if st.depth() != e {
                    self.fail(
                        "atomic-commit-missing",
                        format!(
                            "after the EndAtomic before pc {}: {} alternatives alive, the group was entered at depth {} (every alternative created since must be discarded, none older)",
                            pc, st.depth(), e
                        ),
                    );
                }
            }
            if let Some(t) = self.failneg_target.take() {
                // first instruction after a negative look-around failed: the unwinding must have
                // removed exactly the look-around's own alternative and everything above it, and
                // the ordinary backtrack that follows one more
                if t == 0 || st.depth() != t - 1 {
                    self.fail(
                        "neglook-unwind",
                        format!(
                            "after FailNegativeLookAround: depth {} expected {}",
                            st.depth(),
                            t as isize - 1
                        ),
                    );
                }
                self.res.borrow_mut().stats.neglook_unwinds_checked += 1;
            }
            if !self.brackets.is_empty() {
                match insn {
                    Insn::Save(slot) => self.bracket_event(0, 0, Some(*slot), pc, st.depth()),
                    Insn::Delegate { start_group, end_group, .. } if end_group > start_group => self.bracket_event(*start_group, *end_group, None, pc, st.depth()),
                    _ => {}
                }
            }
            match insn {
                Insn::BeginAtomic => self.marks.push((pc, st.depth())),
                Insn::EndAtomic => {
                    let expected_begin = self.end_to_begin.get(&pc).copied();
                    match self.marks.pop() {
                        Some((bpc, depth)) if Some(bpc) == expected_begin => {
                            // what this commit must cut to, whatever the VM remembered
                            self.expected_cut = Some(depth);
                        }
                        Some((bpc, depth)) => {
                            let detail = format!(
                                "EndAtomic at pc {} closes the group opened by BeginAtomic at pc {} (depth {}), its own BeginAtomic is at pc {:?}",
                                pc, bpc, depth, expected_begin
                            );
                            if self.cond_begins.contains(&bpc) {
                                // the listed finding: a conditional's false path never closed its group
                                let mut r = self.res.borrow_mut();
                                if r.leaked_cond_marker.is_none() {
                                    r.leaked_cond_marker = Some(detail);
                                }
                                drop(r);
                                self.dead = true;
                                return;
                            }
                            self.fail("atomic-wrong-marker", detail);
                        }
                        None => self.fail("atomic-wrong-marker", format!("EndAtomic at pc {} with no atomic group open", pc)),
                    }
                }
                _ => {}
            }
            if let Insn::FailNegativeLookAround = insn {
                let own = self.failneg_split.get(&pc).copied();
                let target = own.and_then(|s| self.model.stack.iter().rposition(|c| c.creator == s));
                match target {
                    Some(t) => self.failneg_target = Some(t),
                    None => self.fail(
                        "neglook-unwind",
                        format!("FailNegativeLookAround at pc {} without its own alternative on the stack", pc),
                    ),
                }
            }
        }
        if self.check_progress {
            // epsilon guard probe
            match insn {
                Insn::RepeatEpsilonGr { lo, repeat, .. } | Insn::RepeatEpsilonNg { lo, repeat, .. } => {
                    self.last_epsilon = Some((pc, ix));
                    // Bounded counters: beyond `lo`, the guard lets an iteration start only if the
                    // previous one consumed input, and the position never moves left from one
                    // iteration to the next (look-arounds restore it), so the iteration counter of
                    // a guarded loop can never exceed lo + |text| + 1. A larger value means the
                    // guard is ineffective: the loop spins (its counter changes every round, so
                    // the configuration test below cannot see it) until a limit error.
                    let rc = st.raw_saves().get(*repeat).copied().unwrap_or(0);
                    if rc != usize::MAX && rc > lo.saturating_add(self.text_len).saturating_add(2) {
                        self.fail(
                            "no-progress",
                            format!(
                                "empty-iteration guard ineffective: the repeat at pc {} (lo {}) is in iteration {} on a text of {} bytes; every iteration beyond lo must consume input, so this can only end in a spurious StackOverflow / BacktrackLimitExceeded",
                                pc, lo, rc, self.text_len
                            ),
                        );
                    }
                }
                Insn::RepeatGr { lo, hi, repeat, .. } | Insn::RepeatNg { lo, hi, repeat, .. } if *hi > 1_000_000 => {
                    // A counted loop without an upper bound is only emitted for bodies that must
                    // consume input, so it cannot iterate more often than lo + |text| + 1 times
                    // either; an (effectively) unbounded plain loop whose counter runs past that
                    // is spinning on empty iterations.
                    let rc = st.raw_saves().get(*repeat).copied().unwrap_or(0);
                    if rc != usize::MAX && rc > lo.saturating_add(self.text_len).saturating_add(2) {
                        self.fail(
                            "no-progress",
                            format!(
                                "unbounded counted repeat at pc {} (lo {}, hi {}) is in iteration {} on a text of {} bytes: its body matches empty and nothing stops it, so this can only end in a spurious StackOverflow / BacktrackLimitExceeded",
                                pc, lo, hi, rc, self.text_len
                            ),
                        );
                    }
                }
                _ => {}
            }
            self.clock += 1;
            if !self.progress_off && self.heads.contains(&pc) {
                let key = config_hash(pc, ix, st);
                let d = st.depth();
                let h = st.aux().len();
                self.res.borrow_mut().stats.configs_checked += 1;
                if let Some((t1, d1, h1)) = self.visited.insert(key, (self.clock, d, h)) {
                    // Same (pc, ix, slots) as at time t1. If neither the branch stack nor the aux
                    // stack ever dropped below its height at t1, nothing the machine looked at
                    // since t1 differs now (every alternative it abandoned and every marker it
                    // popped was created after t1), so being deterministic it repeats the same
                    // path forever: it can only end in a spurious limit error.
                    let disturbed_d = self.low_d.get(d1).map_or(false, |t| *t >= t1);
                    let disturbed_a = self.low_a.get(h1).map_or(false, |t| *t >= t1);
                    if !disturbed_d && !disturbed_a && d >= d1 && h >= h1 {
                        self.fail(
                            "no-progress",
                            format!(
                                "configuration (pc {}, ix {}, slots {:?}) recurred at branch depth {} -> {} and aux height {} -> {} without the machine ever returning below the earlier heights: deterministic, so it repeats forever and can only end in a spurious StackOverflow / BacktrackLimitExceeded",
                                pc,
                                ix,
                                st.slots(),
                                d1,
                                d,
                                h1,
                                h
                            ),
                        );
                    }
                }
                if self.visited.len() > PROGRESS_CONFIG_CAP {
                    self.progress_off = true;
                    self.visited = HashMap::new();
                    self.res.borrow_mut().stats.progress_capped += 1;
                }
            }
        }
    }

    fn backtrack(&mut self, st: &StateView<'_>) {
        if self.dead {
            return;
        }
        if self.check_model {
            if let Some((at, Some((p, i)))) = self.expect_read.take() {
                self.fail(
                    "capture-read-not-reverted",
                    format!(
                        "the instruction at pc {} reads a capture position; by the state's values of that moment (slots {:?}) it continues at pc {} position {}, but the VM failed: it used a value other than the one the state holds",
                        at, self.model.slots, p, i
                    ),
                );
            }
            if let Some((at, tpc, tix)) = self.expect_push.take() {
                self.fail(
                    "alternative-not-created",
                    format!("the branching instruction at pc {} failed over to a backtrack without having created its alternative (resume at pc {}, position {})", at, tpc, tix),
                );
            }
            if let Some(t) = self.failneg_target.take() {
                if st.depth() != t {
                    self.fail(
                        "neglook-unwind",
                        format!(
                            "FailNegativeLookAround unwound to depth {} but its own alternative was at index {}",
                            st.depth(),
                            t
                        ),
                    );
                }
                self.res.borrow_mut().stats.neglook_unwinds_checked += 1;
            }
        }
        if self.check_progress {
            if let Some((pc, _)) = self.last_epsilon.take() {
                if pc == self.cur_pc {
                    self.res.borrow_mut().stats.epsilon_guard_fired += 1;
                }
            }
        }
    }

    fn op(&mut self, op: StateOp, st: &StateView<'_>) {
        if self.dead {
            return;
        }
        self.res.borrow_mut().stats.ops += 1;
        if self.check_progress {
            let d = st.depth();
            let a = st.aux().len();
            let t = self.clock;
            Shadow::note_height(&mut self.low_d, self.cur_d, d, t);
            Shadow::note_height(&mut self.low_a, self.cur_a, a, t);
            self.cur_d = d;
            self.cur_a = a;
        }
        if !self.check_model {
            return;
        }
        match op {
            StateOp::Push { pc, ix, ok } => {
                if let Some((_, tpc, tix)) = self.expect_push {
                    if !ok || (pc == tpc && ix == tix) {
                        self.expect_push = None;
                    }
                }
                let before = self.model.depth();
                if before >= MODEL_DEPTH_CAP {
                    self.check_model = false;
                    self.failneg_target = None;
                    self.res.borrow_mut().stats.model_capped += 1;
                    return;
                }
                let mok = self.model.push(pc, ix, self.cur_pc);
                if mok {
                    self.aux_tag_stack.push(self.aux_tags.clone());
                    self.marks_stack.push(self.marks.clone());
                }
                if mok != ok {
                    self.fail(
                        "push-capacity",
                        format!(
                            "push at depth {} with capacity {}: real {} model {}",
                            before, self.model.max_stack, ok, mok
                        ),
                    );
                }
            }
            StateOp::Pop { pc, ix } => {
                self.res.borrow_mut().stats.pops += 1;
                let before = self.model.slots.clone();
                match self.model.pop() {
                    None => self.fail("pop-empty", "pop with an empty model stack".into()),
                    Some((mpc, mix)) => {
                        if let Some(t) = self.aux_tag_stack.pop() {
                            self.aux_tags = t;
                        }
                        if let Some(m) = self.marks_stack.pop() {
                            self.marks = m;
                        }
                        if (mpc, mix) != (pc, ix) {
                            self.fail(
                                "pop-return-mismatch",
                                format!("pop returned {:?}, the alternative was created as {:?}", (pc, ix), (mpc, mix)),
                            );
                        }
                        if self.cut_seen && before != self.model.slots {
                            self.res.borrow_mut().stats.rollback_after_cut += 1;
                        }
                    }
                }
            }
            StateOp::Save { slot, val } => {
                if slot < self.n_slots {
                    self.model.save(slot, val);
                } else {
                    // internal write of stack_push / stack_pop: state is mid-operation
                    return;
                }
            }
            StateOp::StackPush { val } => {
                self.model.aux.push(val);
                let tag = if self.cur_is_begin {
                    if val != self.model.depth() {
                        self.fail(
                            "atomic-marker-value",
                            format!("BeginAtomic pushed {} at depth {}", val, self.model.depth()),
                        );
                    }
                    (self.cur_pc, self.model.depth())
                } else {
                    (usize::MAX, val)
                };
                self.aux_tags.push(tag);
                let mut r = self.res.borrow_mut();
                if self.model.aux.len() > r.stats.max_aux {
                    r.stats.max_aux = self.model.aux.len();
                }
            }
            StateOp::StackPop { val } => {
                let m = self.model.aux.pop();
                let tag = self.aux_tags.pop();
                if m != Some(val) {
                    self.fail(
                        "stackpop-return-mismatch",
                        format!("stack_pop returned {} model {:?}", val, m),
                    );
                }
                if self.cur_is_end {
                    let expected_begin = self.end_to_begin.get(&self.cur_pc).copied();
                    let (tag_pc, tag_depth) = tag.unwrap_or((usize::MAX, usize::MAX));
                    if Some(tag_pc) != expected_begin {
                        let detail = format!(
                            "EndAtomic at pc {} popped the marker of BeginAtomic at pc {} (depth {}), its own BeginAtomic is at pc {:?}",
                            self.cur_pc, tag_pc as isize, tag_depth, expected_begin
                        );
                        if self.cond_begins.contains(&tag_pc) {
                            // the recorded known finding: a conditional's false path left its
                            // marker behind. Record it; the caller decides whether it is listed.
                            let mut r = self.res.borrow_mut();
                            if r.leaked_cond_marker.is_none() {
                                r.leaked_cond_marker = Some(detail);
                            }
                            drop(r);
                            // the state discipline below this point is knowingly off: stop checking
                            self.dead = true;
                            return;
                        }
                        self.fail("atomic-wrong-marker", detail);
                    }
                    if let Some(e) = self.expected_cut {
                        if e != tag_depth {
                            self.fail(
                                "atomic-marker-value",
                                format!("EndAtomic at pc {}: the VM remembered depth {} for this group, it was entered at depth {}", self.cur_pc, tag_depth, e),
                            );
                        }
                    }
                    self.expected_cut = Some(tag_depth);
                }
            }
            StateOp::Cut { count } => {
                {
                    let mut r = self.res.borrow_mut();
                    r.stats.cuts += 1;
                    let removed = self.model.depth().saturating_sub(count);
                    if removed >= 1 {
                        r.stats.cuts_nonempty += 1;
                        self.cut_seen = true;
                    }
                    if removed >= 2 {
                        r.stats.cuts_multi += 1;
                    }
                }
                if self.cur_is_end {
                    if let Some(e) = self.expected_cut.take() {
                        self.res.borrow_mut().stats.atomic_commits_checked += 1;
                        if e != count {
                            self.fail(
                                "atomic-cut-count",
                                format!(
                                    "EndAtomic at pc {} cut to {} but the group was entered at depth {}",
                                    self.cur_pc, count, e
                                ),
                            );
                        }
                    }
                }
                if count > self.model.depth() {
                    self.fail(
                        "cut-above-depth",
                        format!("cut to {} at depth {}", count, self.model.depth()),
                    );
                }
                self.model.cut(count);
                self.aux_tag_stack.truncate(count);
                self.marks_stack.truncate(count);
            }
        }
        if let Some((class, detail)) = compare(st, &self.model) {
            let d = format!("after {:?} at pc {}: {}", op, self.cur_pc, detail);
            self.fail(class, d);
        }
    }

    fn run_end(&mut self, end: EndReason, saves: Option<&[usize]>) {
        if self.dead {
            return;
        }
        if self.check_model {
            if let (Some((at, Some((p, i)))), EndReason::NoMatch) = (self.expect_read.take(), end) {
                self.fail(
                    "capture-read-not-reverted",
                    format!(
                        "the instruction at pc {} reads a capture position; by the state's values of that moment (slots {:?}) it continues at pc {} position {}, but the search ended without a match there",
                        at, self.model.slots, p, i
                    ),
                );
            }
            if let Some(t) = self.failneg_target.take() {
                // the run ended right after a negative look-around failed
                let depth = self.model.depth();
                let ok = match end {
                    EndReason::NoMatch => t == 0 && depth == 0,
                    _ => true,
                };
                if !ok {
                    self.fail(
                        "neglook-unwind",
                        format!("run ended {:?} after FailNegativeLookAround at depth {} (own alternative at {})", end, depth, t),
                    );
                }
            }
            if let (EndReason::Match, Some(s)) = (end, saves) {
                // End may cap slot 0 to slot 1 (\K); that write went through `save` and is in the model
                let n = self.n_slots.min(s.len());
                if s[..n] != self.model.slots[..n] {
                    self.fail(
                        "result-mismatch",
                        format!("returned slots {:?} model {:?}", &s[..n], &self.model.slots[..n]),
                    );
                }
            }
        }
    }
}
