//! The single source of randomness: everything a run decides is drawn from one `Rng` seeded from
//! (VERIF_SEED, run index). No clock, no OS randomness.

#[derive(Clone, Debug)]
pub struct Rng {
    s: [u64; 4],
}

pub fn splitmix(x: &mut u64) -> u64 {
    *x = x.wrapping_add(0x9E37_79B9_7F4A_7C15);
    let mut z = *x;
    z = (z ^ (z >> 30)).wrapping_mul(0xBF58_476D_1CE4_E5B9);
    z = (z ^ (z >> 27)).wrapping_mul(0x94D0_49BB_1331_11EB);
    z ^ (z >> 31)
}

/// Seed of run `i` of a batch started with `seed`.
pub fn derive(seed: u64, i: u64) -> u64 {
    let mut x = seed ^ i.wrapping_mul(0xD1B5_4A32_D192_ED03).rotate_left(17);
    let a = splitmix(&mut x);
    let _ = splitmix(&mut x);
    a ^ i
}

impl Rng {
    pub fn new(seed: u64) -> Rng {
        let mut x = seed;
        let s = [
            splitmix(&mut x),
            splitmix(&mut x),
            splitmix(&mut x),
            splitmix(&mut x),
        ];
        Rng { s }
    }

    pub fn next_u64(&mut self) -> u64 {
        // xoshiro256**
        let result = self.s[1].wrapping_mul(5).rotate_left(7).wrapping_mul(9);
        let t = self.s[1] << 17;
        self.s[2] ^= self.s[0];
        self.s[3] ^= self.s[1];
        self.s[1] ^= self.s[2];
        self.s[0] ^= self.s[3];
        self.s[2] ^= t;
        self.s[3] = self.s[3].rotate_left(45);
        result
    }

    /// Uniform in 0..n (n > 0).
    pub fn below(&mut self, n: usize) -> usize {
        debug_assert!(n > 0);
        (self.next_u64() % (n as u64)) as usize
    }

    /// Uniform in lo..=hi.
    pub fn range(&mut self, lo: usize, hi: usize) -> usize {
        lo + self.below(hi - lo + 1)
    }

    /// True with probability num/den.
    pub fn chance(&mut self, num: usize, den: usize) -> bool {
        self.below(den) < num
    }

    pub fn pick<'a, T>(&mut self, xs: &'a [T]) -> &'a T {
        &xs[self.below(xs.len())]
    }

    /// Weighted choice: returns the index.
    pub fn weighted(&mut self, weights: &[usize]) -> usize {
        let total: usize = weights.iter().sum();
        let mut r = self.below(total.max(1));
        for (i, w) in weights.iter().enumerate() {
            if r < *w {
                return i;
            }
            r -= *w;
        }
        weights.len() - 1
    }

    pub fn fork(&mut self) -> Rng {
        Rng::new(self.next_u64())
    }
}

/// FNV-1a, used for distinct-case counting and schedule hashes (deterministic across processes,
/// unlike std's RandomState).
#[derive(Clone, Copy)]
pub struct Fnv(pub u64);

impl Fnv {
    pub fn new() -> Fnv {
        Fnv(0xcbf2_9ce4_8422_2325)
    }
    pub fn u8(&mut self, b: u8) {
        self.0 ^= b as u64;
        self.0 = self.0.wrapping_mul(0x0000_0100_0000_01B3);
    }
    pub fn u64(&mut self, v: u64) {
        for b in v.to_le_bytes() {
            self.u8(b);
        }
    }
    pub fn bytes(&mut self, bs: &[u8]) {
        for b in bs {
            self.u8(*b);
        }
        self.u8(0xff);
    }
    pub fn str(&mut self, s: &str) {
        self.bytes(s.as_bytes());
    }
}

pub fn hash_str(s: &str) -> u64 {
    let mut h = Fnv::new();
    h.str(s);
    h.0
}
