//! Seeded workload generator: pattern ASTs (rendered to fancy-regex syntax), texts, and a shrinker.
//! This is *workload*, not the deciding step: the properties are decided by the abort-point sweeps,
//! schedules and histories the simulator drives over these workloads.

use crate::rng::Rng;

#[derive(Clone, Debug, PartialEq, Eq)]
pub enum Kind {
    Greedy,
    Lazy,
    Possessive,
}

#[derive(Clone, Debug, PartialEq, Eq)]
pub enum Node {
    Empty,
    Lit(char),
    Dot,
    /// a class or escape rendered verbatim, always exactly one character wide
    Class(&'static str),
    /// zero-width assertion rendered verbatim
    Anchor(&'static str),
    Group(Box<Node>),
    Named(String, Box<Node>),
    NonCap(Box<Node>),
    CaseI(Box<Node>),
    Alt(Vec<Node>),
    Concat(Vec<Node>),
    Repeat {
        child: Box<Node>,
        lo: usize,
        hi: Option<usize>,
        kind: Kind,
    },
    Atomic(Box<Node>),
    Look {
        child: Box<Node>,
        ahead: bool,
        neg: bool,
    },
    Backref(usize),
    NamedBackref(String),
    KeepOut,
    ContinueG,
    /// (?(N)yes|no)
    CondGroup(usize, Box<Node>, Option<Box<Node>>),
    /// (?(cond)yes|no)
    CondExpr(Box<Node>, Box<Node>, Box<Node>),
}

impl Node {
    fn is_atom(&self) -> bool {
        matches!(
            self,
            Node::Lit(_)
                | Node::Dot
                | Node::Class(_)
                | Node::Group(_)
                | Node::Named(..)
                | Node::NonCap(_)
                | Node::CaseI(_)
                | Node::Atomic(_)
                | Node::Backref(_)
                | Node::NamedBackref(_)
                | Node::CondGroup(..)
                | Node::CondExpr(..)
        )
    }

    pub fn render(&self) -> String {
        let mut s = String::new();
        self.render_into(&mut s);
        s
    }

    /// A copy of the pattern in which some of the constructs that commit (atomic groups,
    /// possessive quantifiers, negative look-arounds — NOT positive look-arounds: this engine
    /// compiles them to save / body / restore and deliberately keeps the body's alternatives, and
    /// the property's commit clause does not list them) stand between two empty marker groups
    /// `(?<zbN>)` ... `(?<zeN>)`: the VM then executes a recognisable instruction right before the
    /// construct is entered and right after it is left, whatever instructions the construct itself
    /// is compiled to (or optimised away to). Each construct is marked with probability 1/`odds`;
    /// `next_id` numbers the pairs. (Numbered back-references after a marker shift by the added
    /// groups: the marked pattern is simply another pattern of the workload.)
    pub fn with_commit_brackets(&self, rng: &mut Rng, odds: usize, next_id: &mut usize) -> Node {
        let rec = |n: &Node, rng: &mut Rng, next_id: &mut usize| n.with_commit_brackets(rng, odds, next_id);
        let inner = match self {
            Node::Group(c) => Node::Group(Box::new(rec(c, rng, next_id))),
            Node::Named(n, c) => Node::Named(n.clone(), Box::new(rec(c, rng, next_id))),
            Node::NonCap(c) => Node::NonCap(Box::new(rec(c, rng, next_id))),
            Node::CaseI(c) => Node::CaseI(Box::new(rec(c, rng, next_id))),
            Node::Alt(v) => Node::Alt(v.iter().map(|c| rec(c, rng, next_id)).collect()),
            Node::Concat(v) => Node::Concat(v.iter().map(|c| rec(c, rng, next_id)).collect()),
            Node::Repeat { child, lo, hi, kind } => Node::Repeat { child: Box::new(rec(child, rng, next_id)), lo: *lo, hi: *hi, kind: kind.clone() },
            Node::Atomic(c) => Node::Atomic(Box::new(rec(c, rng, next_id))),
            // look-behind bodies must keep a constant width and are left alone; look-ahead bodies
            // are ordinary sub-patterns
            Node::Look { child, ahead: true, neg } => Node::Look { child: Box::new(rec(child, rng, next_id)), ahead: true, neg: *neg },
            Node::CondGroup(g, y, n) => Node::CondGroup(*g, Box::new(rec(y, rng, next_id)), n.as_ref().map(|n| Box::new(rec(n, rng, next_id)))),
            Node::CondExpr(c, y, n) => Node::CondExpr(c.clone(), Box::new(rec(y, rng, next_id)), Box::new(rec(n, rng, next_id))),
            other => other.clone(),
        };
        let commits = matches!(self, Node::Atomic(_) | Node::Look { neg: true, .. }) || matches!(self, Node::Repeat { kind: Kind::Possessive, .. });
        if commits && rng.chance(1, odds.max(1)) {
            let id = *next_id;
            *next_id += 1;
            Node::NonCap(Box::new(Node::Concat(vec![
                Node::Named(format!("zb{}", id), Box::new(Node::Empty)),
                inner,
                Node::Named(format!("ze{}", id), Box::new(Node::Empty)),
            ])))
        } else {
            inner
        }
    }

    fn render_lit(c: char, out: &mut String) {
        if "\\.+*?()|[]{}^$#".contains(c) {
            out.push('\\');
            out.push(c);
        } else if c == '\n' {
            out.push_str("\\n");
        } else {
            out.push(c);
        }
    }

    fn render_into(&self, out: &mut String) {
        match self {
            Node::Empty => {}
            Node::Lit(c) => Node::render_lit(*c, out),
            Node::Dot => out.push('.'),
            Node::Class(s) | Node::Anchor(s) => out.push_str(s),
            Node::Group(c) => {
                out.push('(');
                c.render_into(out);
                out.push(')');
            }
            Node::Named(n, c) => {
                out.push_str("(?<");
                out.push_str(n);
                out.push('>');
                c.render_into(out);
                out.push(')');
            }
            Node::NonCap(c) => {
                out.push_str("(?:");
                c.render_into(out);
                out.push(')');
            }
            Node::CaseI(c) => {
                out.push_str("(?i:");
                c.render_into(out);
                out.push(')');
            }
            Node::Alt(v) => {
                for (i, c) in v.iter().enumerate() {
                    if i > 0 {
                        out.push('|');
                    }
                    c.render_into(out);
                }
            }
            Node::Concat(v) => {
                for c in v {
                    if matches!(c, Node::Alt(_)) {
                        out.push_str("(?:");
                        c.render_into(out);
                        out.push(')');
                    } else {
                        c.render_into(out);
                    }
                }
            }
            Node::Repeat {
                child,
                lo,
                hi,
                kind,
            } => {
                if child.is_atom() {
                    child.render_into(out);
                } else {
                    out.push_str("(?:");
                    child.render_into(out);
                    out.push(')');
                }
                match (lo, hi) {
                    (0, None) => out.push('*'),
                    (1, None) => out.push('+'),
                    (0, Some(1)) => out.push('?'),
                    (lo, None) => out.push_str(&format!("{{{},}}", lo)),
                    (lo, Some(hi)) if lo == hi => out.push_str(&format!("{{{}}}", lo)),
                    (lo, Some(hi)) => out.push_str(&format!("{{{},{}}}", lo, hi)),
                }
                match kind {
                    Kind::Greedy => {}
                    Kind::Lazy => out.push('?'),
                    Kind::Possessive => out.push('+'),
                }
            }
            Node::Atomic(c) => {
                out.push_str("(?>");
                c.render_into(out);
                out.push(')');
            }
            Node::Look { child, ahead, neg } => {
                out.push_str(match (ahead, neg) {
                    (true, false) => "(?=",
                    (true, true) => "(?!",
                    (false, false) => "(?<=",
                    (false, true) => "(?<!",
                });
                child.render_into(out);
                out.push(')');
            }
            Node::Backref(n) => out.push_str(&format!("\\{}", n)),
            Node::NamedBackref(n) => out.push_str(&format!("\\k<{}>", n)),
            Node::KeepOut => out.push_str("\\K"),
            Node::ContinueG => out.push_str("\\G"),
            Node::CondGroup(n, yes, no) => {
                out.push_str(&format!("(?({})", n));
                Node::render_branch(yes, out);
                if let Some(no) = no {
                    out.push('|');
                    Node::render_branch(no, out);
                }
                out.push(')');
            }
            Node::CondExpr(c, yes, no) => {
                out.push_str("(?(");
                c.render_into(out);
                out.push(')');
                Node::render_branch(yes, out);
                out.push('|');
                Node::render_branch(no, out);
                out.push(')');
            }
        }
    }

    fn render_branch(n: &Node, out: &mut String) {
        if matches!(n, Node::Alt(_)) {
            out.push_str("(?:");
            n.render_into(out);
            out.push(')');
        } else {
            n.render_into(out);
        }
    }

    /// Structural facts used to keep recorded known-defect classes out of generated workloads.
    pub fn facts(&self) -> Facts {
        let mut f = Facts::default();
        self.walk(&mut f, false, false, false);
        f
    }

    fn walk(&self, f: &mut Facts, in_atomic: bool, in_look: bool, in_loop: bool) {
        match self {
            Node::Empty | Node::Lit(_) | Node::Dot | Node::Class(_) => {}
            Node::Anchor(_) => f.anchors = true,
            Node::Group(c) | Node::Named(_, c) => {
                f.groups += 1;
                if f.neg_depth > 0 {
                    f.neg_look_groups.push(f.groups);
                }
                c.walk(f, in_atomic, in_look, in_loop)
            }
            Node::NonCap(c) | Node::CaseI(c) => c.walk(f, in_atomic, in_look, in_loop),
            Node::Alt(v) | Node::Concat(v) => {
                for c in v {
                    c.walk(f, in_atomic, in_look, in_loop)
                }
            }
            Node::Repeat { child, kind, .. } => {
                f.repeats += 1;
                let atomic = in_atomic || *kind == Kind::Possessive;
                if *kind == Kind::Possessive {
                    f.atomic = true;
                }
                child.walk(f, atomic, in_look, true)
            }
            Node::Atomic(c) => {
                f.atomic = true;
                c.walk(f, true, in_look, in_loop)
            }
            Node::Look { child, neg, ahead } => {
                f.look = true;
                if *neg {
                    f.neg_depth += 1;
                }
                if !*ahead {
                    f.behind_depth += 1;
                }
                child.walk(f, in_atomic, true, in_loop);
                if *neg {
                    f.neg_depth -= 1;
                }
                if !*ahead {
                    f.behind_depth -= 1;
                }
            }
            Node::Backref(_) | Node::NamedBackref(_) => f.backref = true,
            Node::KeepOut => {
                f.keepout = true;
                if in_look {
                    f.keepout_in_look = true;
                }
                if f.behind_depth > 0 {
                    f.keepout_in_lookbehind = true;
                }
            }
            Node::ContinueG => f.continue_g = true,
            Node::CondGroup(_, yes, no) => {
                f.cond = true;
                if in_atomic {
                    f.cond_in_atomic = true;
                }
                if in_loop {
                    f.cond_in_loop = true;
                }
                yes.walk(f, in_atomic, in_look, in_loop);
                if let Some(no) = no {
                    no.walk(f, in_atomic, in_look, in_loop);
                }
            }
            Node::CondExpr(c, yes, no) => {
                f.cond = true;
                f.cond_expr = true;
                if in_atomic {
                    f.cond_in_atomic = true;
                }
                if in_loop {
                    f.cond_in_loop = true;
                }
                // the condition part runs between BeginAtomic and EndAtomic
                c.walk(f, true, in_look, in_loop);
                yes.walk(f, in_atomic, in_look, in_loop);
                no.walk(f, in_atomic, in_look, in_loop);
            }
        }
    }

    /// One-step structural reductions, used by the minimiser.
    pub fn shrinks(&self) -> Vec<Node> {
        let mut out = Vec::new();
        match self {
            Node::Empty => {}
            Node::Lit(_) | Node::Dot | Node::Class(_) | Node::Anchor(_) => out.push(Node::Empty),
            Node::KeepOut | Node::ContinueG | Node::Backref(_) | Node::NamedBackref(_) => {
                out.push(Node::Empty)
            }
            Node::Group(c) | Node::Named(_, c) => {
                // removing a group renumbers; callers re-validate by compiling
                out.push((**c).clone());
                for s in c.shrinks() {
                    out.push(match self {
                        Node::Group(_) => Node::Group(Box::new(s)),
                        Node::Named(n, _) => Node::Named(n.clone(), Box::new(s)),
                        _ => unreachable!(),
                    });
                }
            }
            Node::NonCap(c) => {
                out.push((**c).clone());
                for s in c.shrinks() {
                    out.push(Node::NonCap(Box::new(s)));
                }
            }
            Node::CaseI(c) => {
                out.push((**c).clone());
                for s in c.shrinks() {
                    out.push(Node::CaseI(Box::new(s)));
                }
            }
            Node::Atomic(c) => {
                out.push((**c).clone());
                for s in c.shrinks() {
                    out.push(Node::Atomic(Box::new(s)));
                }
            }
            Node::Look { child, ahead, neg } => {
                out.push(Node::Empty);
                for s in child.shrinks() {
                    out.push(Node::Look {
                        child: Box::new(s),
                        ahead: *ahead,
                        neg: *neg,
                    });
                }
            }
            Node::Alt(v) | Node::Concat(v) => {
                let is_alt = matches!(self, Node::Alt(_));
                let mk = |v: Vec<Node>| {
                    if v.len() == 1 {
                        v.into_iter().next().unwrap()
                    } else if v.is_empty() {
                        Node::Empty
                    } else if is_alt {
                        Node::Alt(v)
                    } else {
                        Node::Concat(v)
                    }
                };
                for i in 0..v.len() {
                    let mut w = v.clone();
                    w.remove(i);
                    out.push(mk(w));
                }
                for i in 0..v.len() {
                    for s in v[i].shrinks() {
                        let mut w = v.clone();
                        w[i] = s;
                        out.push(mk(w));
                    }
                }
            }
            Node::Repeat {
                child,
                lo,
                hi,
                kind,
            } => {
                out.push((**child).clone());
                if *kind != Kind::Greedy {
                    out.push(Node::Repeat {
                        child: child.clone(),
                        lo: *lo,
                        hi: *hi,
                        kind: Kind::Greedy,
                    });
                }
                if *lo > 0 {
                    out.push(Node::Repeat {
                        child: child.clone(),
                        lo: lo - 1,
                        hi: *hi,
                        kind: kind.clone(),
                    });
                }
                for s in child.shrinks() {
                    out.push(Node::Repeat {
                        child: Box::new(s),
                        lo: *lo,
                        hi: *hi,
                        kind: kind.clone(),
                    });
                }
            }
            Node::CondGroup(n, yes, no) => {
                out.push((**yes).clone());
                if let Some(no) = no {
                    out.push((**no).clone());
                    out.push(Node::CondGroup(*n, yes.clone(), None));
                    for s in no.shrinks() {
                        out.push(Node::CondGroup(*n, yes.clone(), Some(Box::new(s))));
                    }
                }
                for s in yes.shrinks() {
                    out.push(Node::CondGroup(*n, Box::new(s), no.clone()));
                }
            }
            Node::CondExpr(c, yes, no) => {
                out.push((**yes).clone());
                out.push((**no).clone());
                for s in c.shrinks() {
                    if s != Node::Empty {
                        out.push(Node::CondExpr(Box::new(s), yes.clone(), no.clone()));
                    }
                }
                for s in yes.shrinks() {
                    out.push(Node::CondExpr(c.clone(), Box::new(s), no.clone()));
                }
                for s in no.shrinks() {
                    out.push(Node::CondExpr(c.clone(), yes.clone(), Box::new(s)));
                }
            }
        }
        out
    }
}

#[derive(Clone, Debug, Default)]
pub struct Facts {
    pub groups: usize,
    pub repeats: usize,
    pub anchors: bool,
    pub atomic: bool,
    pub look: bool,
    pub backref: bool,
    pub keepout: bool,
    pub keepout_in_look: bool,
    pub continue_g: bool,
    pub cond: bool,
    pub cond_expr: bool,
    pub cond_in_atomic: bool,
    pub cond_in_loop: bool,
    /// numbers of the groups that lie inside a negative look-around
    pub neg_look_groups: Vec<usize>,
    pub neg_depth: usize,
    pub keepout_in_lookbehind: bool,
    pub behind_depth: usize,
}

/// Which constructs the generator may use (swarm: varied per run by the callers).
#[derive(Clone, Debug)]
pub struct GenCfg {
    pub max_depth: usize,
    pub fancy_bias: usize, // 0..=10: weight of fancy constructs
    pub allow_cond: bool,
    pub allow_cond_in_atomic: bool,
    pub allow_keepout: bool,
    pub allow_keepout_in_look: bool,
    pub allow_continue_g: bool,
    pub allow_backref: bool,
    pub allow_look: bool,
    pub allow_atomic: bool,
    /// some named groups get all-digit names (`(?<2>..)`, `(?<07>..)`) that differ from their index
    pub numeric_names: bool,
}

impl GenCfg {
    pub fn full() -> GenCfg {
        GenCfg {
            max_depth: 4,
            fancy_bias: 5,
            allow_cond: true,
            allow_cond_in_atomic: false,
            allow_keepout: true,
            allow_keepout_in_look: false,
            allow_continue_g: true,
            allow_backref: true,
            allow_look: true,
            allow_atomic: true,
            numeric_names: false,
        }
    }

    /// Swarm variation: switch a random subset of constructs off for this run.
    pub fn swarm(rng: &mut Rng) -> GenCfg {
        let mut c = GenCfg::full();
        c.max_depth = rng.range(2, 4);
        c.fancy_bias = rng.range(1, 9);
        c.allow_cond = rng.chance(2, 3);
        c.allow_keepout = rng.chance(1, 2);
        c.allow_continue_g = rng.chance(1, 2);
        c.allow_backref = rng.chance(3, 4);
        c.allow_look = rng.chance(3, 4);
        c.allow_atomic = rng.chance(3, 4);
        c
    }
}

struct Ctx<'a> {
    rng: &'a mut Rng,
    cfg: &'a GenCfg,
    /// groups whose closing parenthesis has been emitted (usable by backrefs / conditions)
    closed: Vec<usize>,
    /// groups that are open at this point (a backreference to one of them refers to itself)
    open: Vec<usize>,
    named: Vec<(usize, String)>,
    next_group: usize,
    in_atomic: bool,
    in_look: bool,
}

// the last two fold, case-insensitively, to a character with a shorter UTF-8 encoding (KELVIN SIGN
// -> k, LONG S -> s): byte lengths of a literal and of what it matches differ
const LITS: &[char] = &['a', 'a', 'a', 'b', 'b', 'c', 'é', '-', '1', 'a', 'b', '\u{212a}', '\u{17f}'];
const CLASSES: &[&str] = &["[ab]", "\\w", "\\d", "[^a]", "[a-c]", "\\s", "[é1]", "\\W", "\\S", "\\h", "\\p{L}", "[^\\n]", "(?s:.)"];
const ANCHORS: &[&str] = &["^", "$", "\\b", "\\B", "\\A", "\\z", "(?m:^)", "(?m:$)", "\\Z", "\\<", "\\>"];

impl<'a> Ctx<'a> {
    fn atom_simple(&mut self) -> Node {
        match self.rng.below(10) {
            0..=5 => Node::Lit(*self.rng.pick(LITS)),
            6 => Node::Dot,
            _ => Node::Class(*self.rng.pick(CLASSES)),
        }
    }

    /// fixed-width expression for look-behind bodies
    fn fixed_width(&mut self, depth: usize) -> Node {
        let n = self.rng.range(1, 2);
        let mut v = Vec::new();
        for _ in 0..n {
            v.push(self.atom_simple());
        }
        // zero-width things keep the width fixed: sometimes the body starts with an anchor (a
        // look-behind that pins the match to the start of the text or of a line) or with \K
        if self.rng.chance(1, 6) {
            v.insert(0, Node::Anchor(*self.rng.pick(&["^", "\\A", "\\b", "(?m:^)"])));
        }
        if self.cfg.allow_keepout && self.cfg.allow_keepout_in_look && self.rng.chance(1, 3) {
            v.insert(0, Node::KeepOut);
        }
        let base = if v.len() == 1 {
            v.pop().unwrap()
        } else {
            Node::Concat(v)
        };
        if depth > 0 && self.rng.chance(1, 4) {
            // top-level alternation of (possibly different) fixed widths is supported
            let other = self.fixed_width(0);
            Node::Alt(vec![base, other])
        } else {
            base
        }
    }

    fn repeat_of(&mut self, child: Node) -> Node {
        let (lo, hi) = match self.rng.below(10) {
            // now and then a large counted repeat: many alternatives alive on a short text
            9 => (self.rng.range(0, 2), Some(*self.rng.pick(&[12usize, 40]))),
            0 | 1 => (0, None),
            2 | 3 => (1, None),
            4 => (0, Some(1)),
            5 => (2, None),
            6 => {
                let lo = self.rng.range(0, 2);
                (lo, Some(lo + self.rng.range(0, 2).max(if lo == 0 { 1 } else { 0 })))
            }
            7 => (1, Some(3)),
            _ => (0, Some(2)),
        };
        let kind = match self.rng.below(6) {
            0 | 1 | 2 => Kind::Greedy,
            3 | 4 => Kind::Lazy,
            _ => {
                if self.cfg.allow_atomic {
                    Kind::Possessive
                } else {
                    Kind::Greedy
                }
            }
        };
        Node::Repeat {
            child: Box::new(child),
            lo,
            hi,
            kind,
        }
    }

    fn expr(&mut self, depth: usize) -> Node {
        if depth == 0 {
            return self.atom_simple();
        }
        let fancy = self.cfg.fancy_bias;
        // weights: concat, alt, repeat, group, noncap, atom, anchor, fancy...
        let choice = self.rng.weighted(&[8, 5, 7, 5, 2, 6, 2, fancy * 2]);
        match choice {
            0 => {
                let n = self.rng.range(2, 3);
                let mut v = Vec::new();
                for _ in 0..n {
                    v.push(self.expr(depth - 1));
                }
                Node::Concat(v)
            }
            1 => {
                let n = self.rng.range(2, 3);
                let mut v = Vec::new();
                for _ in 0..n {
                    if self.rng.chance(1, 8) {
                        v.push(Node::Empty);
                    } else {
                        v.push(self.expr(depth - 1));
                    }
                }
                Node::Alt(v)
            }
            2 => {
                let saved_atomic = self.in_atomic;
                let c = self.expr(depth - 1);
                let r = self.repeat_of(c);
                self.in_atomic = saved_atomic;
                // a possessive repeat whose body holds a conditional would be an atomic context
                if let Node::Repeat {
                    kind: Kind::Possessive,
                    child,
                    lo,
                    hi,
                } = &r
                {
                    if !self.cfg.allow_cond_in_atomic && child.facts().cond {
                        return Node::Repeat {
                            child: child.clone(),
                            lo: *lo,
                            hi: *hi,
                            kind: Kind::Greedy,
                        };
                    }
                }
                r
            }
            3 => {
                let g = self.next_group;
                self.next_group += 1;
                let named = self.rng.chance(1, 5);
                self.open.push(g);
                let c = self.expr(depth - 1);
                self.open.pop();
                self.closed.push(g);
                if named {
                    let name = if self.cfg.numeric_names && self.rng.chance(1, 2) {
                        // an all-digit name that is no group's index (an existing but unmatched
                        // group with a numeric name falls back to the *numbered* group in
                        // expansion - C12's business - so names that are also valid indices are
                        // kept out of this workload)
                        match self.rng.below(2) {
                            0 => format!("{}", g + 70),
                            _ => format!("0{}", g + 70),
                        }
                    } else {
                        format!("n{}", g)
                    };
                    self.named.push((g, name.clone()));
                    Node::Named(name, Box::new(c))
                } else {
                    Node::Group(Box::new(c))
                }
            }
            4 => {
                let c = self.expr(depth - 1);
                if self.rng.chance(1, 4) {
                    Node::CaseI(Box::new(c))
                } else {
                    Node::NonCap(Box::new(c))
                }
            }
            5 => self.atom_simple(),
            6 => Node::Anchor(*self.rng.pick(ANCHORS)),
            _ => self.fancy(depth),
        }
    }

    fn fancy(&mut self, depth: usize) -> Node {
        for _ in 0..8 {
            match self.rng.below(8) {
                0 if self.cfg.allow_atomic => {
                    let saved = self.in_atomic;
                    self.in_atomic = true;
                    let c = self.expr(depth - 1);
                    self.in_atomic = saved;
                    return Node::Atomic(Box::new(c));
                }
                1 | 2 if self.cfg.allow_look => {
                    let ahead = self.rng.chance(3, 5);
                    let neg = self.rng.chance(2, 5);
                    let saved = self.in_look;
                    self.in_look = true;
                    let closed_before = self.closed.len();
                    let child = if ahead {
                        self.expr(depth - 1)
                    } else {
                        self.fixed_width(depth)
                    };
                    if neg {
                        // groups inside a negative look-around never stay set
                        self.closed.truncate(closed_before);
                    }
                    self.in_look = saved;
                    return Node::Look {
                        child: Box::new(child),
                        ahead,
                        neg,
                    };
                }
                3 if self.cfg.allow_backref && !self.open.is_empty() && self.named.is_empty() && self.rng.chance(1, 6) => {
                    // a group referring to itself (the value of its previous iteration)
                    let g = *self.rng.pick(&self.open);
                    return Node::Repeat { child: Box::new(Node::Backref(g)), lo: 0, hi: Some(1), kind: Kind::Greedy };
                }
                3 if self.cfg.allow_backref && !self.closed.is_empty() => {
                    let g = *self.rng.pick(&self.closed);
                    if let Some((_, name)) = self.named.iter().find(|(i, _)| *i == g) {
                        if name.chars().all(|c| c.is_ascii_digit()) {
                            // `\k<7>` would be read as a number: no backreference to such a group
                            continue;
                        }
                        return Node::NamedBackref(name.clone());
                    }
                    if self.named.is_empty() {
                        return Node::Backref(g);
                    }
                    // numbered backrefs are rejected once named groups exist
                    continue;
                }
                4 if self.cfg.allow_keepout
                    && (!self.in_look || self.cfg.allow_keepout_in_look) =>
                {
                    return Node::KeepOut;
                }
                5 if self.cfg.allow_continue_g => return Node::ContinueG,
                6 if self.cfg.allow_cond
                    && (!self.in_atomic || self.cfg.allow_cond_in_atomic)
                    && !self.closed.is_empty()
                    && self.named.is_empty() =>
                {
                    let g = *self.rng.pick(&self.closed);
                    let yes = self.expr(depth - 1);
                    let no = if self.rng.chance(2, 3) {
                        Some(Box::new(self.expr(depth - 1)))
                    } else {
                        None
                    };
                    return Node::CondGroup(g, Box::new(yes), no);
                }
                7 if self.cfg.allow_cond && (!self.in_atomic || self.cfg.allow_cond_in_atomic) => {
                    let saved = self.in_atomic;
                    // the condition part is itself an atomic context
                    self.in_atomic = true;
                    let closed_before = self.closed.len();
                    let c = if self.rng.chance(1, 2) && self.cfg.allow_look {
                        let saved_look = self.in_look;
                        self.in_look = true;
                        let inner = self.expr(depth.saturating_sub(2));
                        self.in_look = saved_look;
                        Node::Look {
                            child: Box::new(inner),
                            ahead: true,
                            neg: self.rng.chance(1, 3),
                        }
                    } else {
                        self.expr(depth.saturating_sub(2))
                    };
                    self.closed.truncate(closed_before);
                    self.in_atomic = saved;
                    let yes = self.expr(depth - 1);
                    let no = self.expr(depth - 1);
                    if c == Node::Empty {
                        continue;
                    }
                    return Node::CondExpr(Box::new(c), Box::new(yes), Box::new(no));
                }
                _ => continue,
            }
        }
        self.atom_simple()
    }
}

impl<'a> Ctx<'a> {
    fn new_group(&mut self, child: Node) -> Node {
        // the group number is taken when the parenthesis opens, i.e. before any group inside
        // `child` was numbered: callers must reserve it first (see `group_around`)
        Node::Group(Box::new(child))
    }

    /// `( inner )` where `inner` is built by `f` *after* the group's number was reserved.
    fn group_around(&mut self, f: impl FnOnce(&mut Self) -> Node) -> Node {
        let g = self.next_group;
        self.next_group += 1;
        let c = f(self);
        self.closed.push(g);
        self.new_group(c)
    }

    /// An expression that can match the empty string (and often something else too).
    fn nullable(&mut self, depth: usize) -> Node {
        match self.rng.below(9) {
            0 | 1 => Node::Repeat {
                child: Box::new(self.atom_simple()),
                lo: 0,
                hi: if self.rng.chance(1, 2) { None } else { Some(self.rng.range(1, 2)) },
                kind: if self.rng.chance(1, 3) { Kind::Lazy } else { Kind::Greedy },
            },
            2 => Node::Alt(if self.rng.chance(1, 2) { vec![self.atom_simple(), Node::Empty] } else { vec![Node::Empty, self.atom_simple()] }),
            3 => Node::Empty,
            4 if self.cfg.allow_look => Node::Look {
                child: Box::new(self.atom_simple()),
                ahead: true,
                neg: self.rng.chance(1, 2),
            },
            5 => Node::Anchor(*self.rng.pick(ANCHORS)),
            6 if depth > 0 => {
                let a = self.nullable(depth - 1);
                let b = self.nullable(depth - 1);
                Node::Concat(vec![a, b])
            }
            7 if depth > 0 => self.group_around(|c| c.nullable(depth - 1)),
            _ => Node::Repeat {
                child: Box::new(self.atom_simple()),
                lo: 0,
                hi: None,
                kind: Kind::Greedy,
            },
        }
    }

    /// A body for an unbounded repeat whose emptiness is what the loop lowering depends on.
    /// a nullable expression that the VM has to run itself (it contains a look-around)
    fn hard_nullable(&mut self) -> Node {
        let la = Node::Look { child: Box::new(self.atom_simple()), ahead: true, neg: self.rng.chance(1, 3) };
        let opt = Node::Repeat { child: Box::new(self.atom_simple()), lo: 0, hi: Some(1), kind: Kind::Greedy };
        if self.rng.chance(1, 2) {
            Node::Concat(vec![la, opt])
        } else {
            Node::Alt(vec![Node::Concat(vec![la, self.atom_simple()]), Node::Empty])
        }
    }

    fn loop_body(&mut self, depth: usize) -> Node {
        for _ in 0..6 {
            match self.rng.below(11) {
                10 if self.cfg.allow_look => {
                    // a guarded loop inside a look-around inside the loop: `(?=(?:(?=a)a?)*)b?`
                    let inner_body = self.hard_nullable();
                    let inner = Node::Repeat {
                        child: Box::new(inner_body),
                        lo: self.rng.range(0, 1),
                        hi: None,
                        kind: if self.rng.chance(1, 3) { Kind::Lazy } else { Kind::Greedy },
                    };
                    let la = Node::Look { child: Box::new(inner), ahead: true, neg: false };
                    let rest = self.nullable(depth);
                    return Node::Concat(vec![la, rest]);
                }
                0 | 1 if !self.closed.is_empty() && self.named.is_empty() => {
                    return Node::Backref(*self.rng.pick(&self.closed));
                }
                2 if !self.closed.is_empty() && self.named.is_empty() => {
                    let b = Node::Backref(*self.rng.pick(&self.closed));
                    let other = if self.rng.chance(1, 2) { self.nullable(depth) } else { self.atom_simple() };
                    return if self.rng.chance(1, 2) { Node::Alt(vec![b, other]) } else { Node::Concat(vec![b, other]) };
                }
                3 if self.cfg.allow_cond && !self.closed.is_empty() && self.named.is_empty() => {
                    let g = *self.rng.pick(&self.closed);
                    let yes = if self.rng.chance(1, 2) { self.nullable(depth) } else { self.atom_simple() };
                    let no = if self.rng.chance(1, 2) { Some(Box::new(if self.rng.chance(1, 2) { self.nullable(depth) } else { self.atom_simple() })) } else { None };
                    return Node::CondGroup(g, Box::new(yes), no);
                }
                4 if self.cfg.allow_cond => {
                    let c = self.atom_simple();
                    let yes = if self.rng.chance(1, 2) { self.nullable(depth) } else { self.atom_simple() };
                    let no = if self.rng.chance(1, 2) { self.nullable(depth) } else { self.atom_simple() };
                    return Node::CondExpr(Box::new(c), Box::new(yes), Box::new(no));
                }
                9 if self.cfg.allow_look => {
                    // a consuming atom followed by a look-behind over what was just consumed (often
                    // a multi-byte character): the body is not nullable, so the loop is compiled
                    // without a guard and relies on every round ending to the right of its start
                    let c = *self.rng.pick(&['a', 'é', 'é', '日', '😀']);
                    let atom = if self.rng.chance(1, 2) {
                        Node::Lit(c)
                    } else {
                        Node::Class(*self.rng.pick(&["\\w", "(?s:.)", "[^a]", "\\S"]))
                    };
                    let behind = match self.rng.below(6) {
                        0 | 1 | 2 => Node::Lit(c),
                        // a look-around nested in the look-behind's body (zero width, so the body
                        // stays fixed-width): saved positions of two levels in flight at once
                        3 => Node::Concat(vec![
                            Node::Look { child: Box::new(Node::Lit(c)), ahead: true, neg: false },
                            Node::Lit(c),
                        ]),
                        4 => Node::Concat(vec![
                            Node::Look { child: Box::new(self.atom_simple()), ahead: self.rng.chance(1, 2), neg: self.rng.chance(1, 4) },
                            Node::Class("(?s:.)"),
                        ]),
                        _ => self.fixed_width(0),
                    };
                    let lb = Node::Look { child: Box::new(behind), ahead: false, neg: self.rng.chance(1, 6) };
                    return Node::Concat(vec![atom, lb]);
                }
                5 => return self.nullable(depth),
                6 => return self.group_around(|c| c.nullable(depth)),
                7 if self.cfg.allow_atomic => return Node::Atomic(Box::new(self.nullable(depth))),
                8 => {
                    let a = self.nullable(depth);
                    let b = if self.rng.chance(1, 2) { self.nullable(depth) } else { self.expr(1) };
                    return Node::Alt(vec![a, b]);
                }
                _ => return self.expr(depth.max(1)),
            }
        }
        self.nullable(depth)
    }

    /// prefix with (possibly nested) groups whose parts may be empty, then an unbounded repeat of a
    /// body that refers back to them, then a short suffix
    fn loop_pattern(&mut self) -> Node {
        let mut parts = Vec::new();
        match self.rng.below(6) {
            0 => parts.push(self.group_around(|c| c.nullable(1))),
            1 | 2 => {
                // nested: ((nullable) non-nullable) or (non-nullable (nullable))
                let inner_first = self.rng.chance(1, 2);
                parts.push(self.group_around(|c| {
                    let inner = c.group_around(|c| c.nullable(1));
                    let solid = c.atom_simple();
                    Node::Concat(if inner_first { vec![inner, solid] } else { vec![solid, inner] })
                }));
            }
            3 => parts.push(self.group_around(|c| {
                let inner = c.group_around(|c| c.atom_simple());
                let other = c.nullable(1);
                Node::Alt(vec![inner, other])
            })),
            4 => {
                parts.push(self.group_around(|c| c.atom_simple()));
                parts.push(self.group_around(|c| c.nullable(1)));
            }
            _ => {}
        }
        let body = self.loop_body(1);
        let lo = *self.rng.pick(&[0usize, 0, 1, 1, 2]);
        let kind = match self.rng.below(5) {
            0 | 1 | 2 => Kind::Greedy,
            3 => Kind::Lazy,
            _ => if self.cfg.allow_atomic && !body.facts().cond { Kind::Possessive } else { Kind::Greedy },
        };
        parts.push(Node::Repeat { child: Box::new(body), lo, hi: None, kind });
        match self.rng.below(4) {
            0 => parts.push(self.atom_simple()),
            1 if !self.closed.is_empty() && self.named.is_empty() => parts.push(Node::Backref(*self.rng.pick(&self.closed))),
            2 => parts.push(Node::Anchor("$")),
            _ => {}
        }
        if parts.len() == 1 {
            parts.pop().unwrap()
        } else {
            Node::Concat(parts)
        }
    }
}

/// Workload aimed at the loop lowering: an unbounded repeat whose body may or may not be able to
/// match the empty string (backreferences to nested / optional groups, conditionals, look-arounds,
/// alternations with an empty arm ...), after a prefix that sets up the groups it refers to.
pub fn gen_loop_pattern(rng: &mut Rng, cfg: &GenCfg) -> Node {
    let mut ctx = Ctx {
        rng,
        cfg,
        closed: Vec::new(),
        open: Vec::new(),
        named: Vec::new(),
        next_group: 1,
        in_atomic: false,
        in_look: false,
    };
    ctx.loop_pattern()
}

/// Generate one pattern AST. Groups are numbered from 1 in opening order.
pub fn gen_pattern(rng: &mut Rng, cfg: &GenCfg) -> Node {
    let depth = rng.range(1, cfg.max_depth);
    let mut ctx = Ctx {
        rng,
        cfg,
        closed: Vec::new(),
        open: Vec::new(),
        named: Vec::new(),
        next_group: 1,
        in_atomic: false,
        in_look: false,
    };
    ctx.expr(depth)
}

// 1-, 2-, 3- and 4-byte characters, among them some whose last byte is 0xBF or 0x80 (the ends of
// the continuation-byte range)
const TEXT_ALPHA: &[char] = &['a', 'a', 'a', 'a', 'a', 'b', 'b', 'b', 'c', 'é', 'é', '\n', '-', '1', '日', '😀', 'ÿ', '¿', 'À', '\u{7ff}', '\u{10ffff}', 'A', 'B', 'É', 'k', 's', '\u{212a}'];

/// Extra text length allowed in the thorough tier (set once, before any job runs).
static TEXT_BONUS: std::sync::atomic::AtomicUsize = std::sync::atomic::AtomicUsize::new(0);

pub fn set_text_bonus(n: usize) {
    TEXT_BONUS.store(n, std::sync::atomic::Ordering::SeqCst);
}

pub fn gen_text(rng: &mut Rng, max_len: usize) -> String {
    let bonus = TEXT_BONUS.load(std::sync::atomic::Ordering::SeqCst);
    let max_len = if bonus > 0 && rng.chance(1, 3) { max_len + bonus } else { max_len };
    let n = rng.range(0, max_len);
    let mut s = String::new();
    // sometimes a run of one letter, which is what makes quantifiers backtrack
    if rng.chance(1, 4) {
        let c = *rng.pick(&['a', 'a', 'b', 'b', 'é', '日']);
        for _ in 0..n {
            s.push(c);
        }
        if rng.chance(1, 2) {
            s.push(*rng.pick(TEXT_ALPHA));
        }
        return s;
    }
    // sometimes a stutter: characters tend to repeat the one before (short runs of any character,
    // multi-byte ones included)
    let stutter = rng.chance(1, 5);
    let mut prev: Option<char> = None;
    for _ in 0..n {
        let c = match prev {
            Some(p) if stutter && rng.chance(1, 2) => p,
            _ => *rng.pick(TEXT_ALPHA),
        };
        s.push(c);
        prev = Some(c);
    }
    s
}

/// A long text (40..250 characters): a short generated piece repeated many times, now and then with
/// another piece in between, so that iterations yield dozens of items and whatever an iterator or
/// a replace accumulates from item to item (counters carried over, buffers grown, positions
/// remembered) has room to go wrong.
/// one case in this many gets a long text (quick tier: 150, thorough tier: 40)
pub fn long_text_odds() -> usize {
    if TEXT_BONUS.load(std::sync::atomic::Ordering::SeqCst) > 0 {
        40
    } else {
        150
    }
}

pub fn gen_long_text(rng: &mut Rng) -> String {
    let mut piece = gen_text(rng, 6);
    if piece.is_empty() {
        piece.push(*rng.pick(TEXT_ALPHA));
    }
    let other = gen_text(rng, 4);
    let target = rng.range(40, 250);
    let mut s = String::new();
    let mut n = 0;
    while n < target {
        if rng.chance(1, 6) {
            s.push_str(&other);
            n += other.chars().count();
        }
        s.push_str(&piece);
        n += piece.chars().count();
    }
    s
}

/// All char-boundary offsets of `s`, including `s.len()`.
pub fn boundaries(s: &str) -> Vec<usize> {
    let mut v: Vec<usize> = s.char_indices().map(|(i, _)| i).collect();
    v.push(s.len());
    v
}

/// Text reductions for the minimiser: drop one character at a time.
pub fn text_shrinks(s: &str) -> Vec<String> {
    let chars: Vec<char> = s.chars().collect();
    let mut out = Vec::new();
    for i in 0..chars.len() {
        let mut t = String::new();
        for (j, c) in chars.iter().enumerate() {
            if i != j {
                t.push(*c);
            }
        }
        out.push(t);
    }
    out
}

/// Fixed corpus lifted from the repository's own tests and documentation (plus a few shapes that
/// exercise every instruction of the VM). Used alongside the generated patterns.
pub const CORPUS: &[&str] = &[
    // plain literals (delegated as a whole; where a literal shortcut would sit)
    "\u{212a}",
    "\u{17f}-",
    "a",
    "ab",
    "é",
    "a-b",
    r"(\w+) \1",
    r"\w+(?=!)",
    r"(a+)b\1",
    r"(a|ab)(c|bcd)\2",
    r"(?>a+)b",
    r"(?>a|ab)c",
    r"a++a",
    r"(?:a|b)*+c",
    r"(?<=a)b",
    r"(?<!a)b",
    r"(?<=a|bb)c",
    r"(?<!a|bb)c",
    r"(?=a)\w+",
    r"(?!ab)\w+",
    r"a(?!b)",
    r"\Ga",
    r"\G\d",
    r"ab\Kc",
    r"(a)\Kb",
    r"(a)?(?(1)b|c)",
    r"(?(?=a)ab|c)",
    r"(?(?!a)b|ac)",
    r"^(?:(a)|b)(?(1)c|d)$",
    r"(a|b|ab)*bc",
    r"(a*)*b",
    r"(a*)+b",
    r"(?:a?){3}a{3}",
    r"(?:a|a)*?b",
    r"(.*)\1",
    r"(?i:A)(b)\1",
    r"\b(\w)(\w)?\2?\1\b",
    r"(?m:^)(\d+)",
    r"(?:(?=a)a|b){2,3}c",
    r"(?:a{0,2}){1,3}?b",
    r"(?<n1>a+)-\k<n1>",
    r"(a)|b(?!\1)",
    r"é+(?=a)",
    r".(?<=é)a",
    r"(?:\b|a)+b",
    r"(?>(?>a*)b*)c",
    r"((?>a+)|b)+c",
    r"(?=(a+))a*b\1",
    r"(?!(a))\1?b",
    r"a*?(?<=aa)b",
    r"x*",
    r"",
    r"a|",
    r"(?:)",
    r"\d{4}-\d{2}",
    r"[^01]+",
    // anchored at the start through different routes: the first match is at 0, the following
    // searches start later and must still see the text before them
    r"^a|(?<=^a)b",
    r"\Aab|(?<=\Aab)c+",
    r"(?<=^a)|^",
    r"(?<=^é)b|^é",
    r"^|(?<=\bb)a|c(?!\1)(d)?",
    r"(?<=\Ka)b|(?=a)",
];
