//! C08 — find_iter yields exactly the successive leftmost non-overlapping matches.
//!
//! System under simulation: the `Matches` state machine, stepped one `next()` at a time over the
//! real search primitive; the lower layer fails at an injected search (limit faults keyed by the
//! thread's vm::run ordinal). Oracle: an executable transcription of the statement that queries the
//! same fault-injected search layer, plus in-run invariants and fused-after-Err.

use crate::c20::minimise_ast;
use crate::common::*;
use crate::gen::{self, GenCfg, Node};
use crate::rng::{derive, Fnv, Rng};
use fancy_regex::internal::Insn;
use fancy_regex::verif::{self, EndReason, LimitOverride, RunStats, SearchCall};
use fancy_regex::{Regex, RegexBuilder};
use serde_json::{json, Value};
use std::collections::HashSet;

pub const PROP: &str = "C08";
pub const KNOWN_KEY_KEEPOUT: &str = "keepout-in-lookbehind-moves-start-before-search-position";
pub const KEEPOUT_WITNESSES: &[(&str, &str)] = &[(r"a|(?<=\Ka)b", "ab"), (r"\w(?<=\K\w)", "ab"), (r"(?<=\Kb)", "b")];

#[derive(Clone, Debug, PartialEq, Eq)]
pub enum Item {
    Match(usize, usize),
    Err(ErrKind),
    Panic(String),
}

#[derive(Clone, Debug, PartialEq, Eq)]
pub struct IterFault {
    /// vm::run ordinal (0-based) of the search to fail
    pub j: u64,
    pub kind: String, // "ble" | "so"
    pub val: usize,
}

#[derive(Clone, Debug)]
pub struct Case {
    pub pattern: String,
    pub text: String,
    pub fault: Option<IterFault>,
    /// build through RegexBuilder::backtrack_limit(k) instead of Regex::new
    pub builder: Option<usize>,
    /// build through RegexBuilder::case_insensitive(true): the iterator and every search it is
    /// compared with go through the same regex, so the flag only has to reach all of them
    pub ci: bool,
    /// also apply the position-independence oracle
    pub shift: bool,
}

impl Case {
    pub fn to_json(&self) -> Value {
        json!({
            "kind": "c08",
            "pattern": self.pattern,
            "text": self.text,
            "fault": self.fault.as_ref().map(|f| json!([f.j, f.kind, f.val])),
            "builder": self.builder,
            "ci": self.ci,
            "shift": self.shift,
        })
    }
    pub fn from_json(v: &Value) -> Option<Case> {
        Some(Case {
            pattern: v["pattern"].as_str()?.to_string(),
            text: v["text"].as_str()?.to_string(),
            fault: match &v["fault"] {
                Value::Array(a) => Some(IterFault {
                    j: a[0].as_u64()?,
                    kind: a[1].as_str()?.to_string(),
                    val: a[2].as_u64()? as usize,
                }),
                _ => None,
            },
            builder: v["builder"].as_u64().map(|x| x as usize),
            ci: v["ci"].as_bool().unwrap_or(false),
            shift: v["shift"].as_bool().unwrap_or(false),
        })
    }
    /// the regex with `\\G` replaced by `(?!)`, when the pattern has a `\\G`
    pub fn build_nog(&self) -> Option<Regex> {
        let p = without_continue_g(&self.pattern)?;
        Case { pattern: p, text: String::new(), fault: None, builder: self.builder, ci: self.ci, shift: false }.build()
    }
    pub fn build(&self) -> Option<Regex> {
        if self.builder.is_none() && !self.ci {
            return compile(&self.pattern);
        }
        std::panic::catch_unwind(|| {
            let mut b = RegexBuilder::new(&self.pattern);
            if self.ci {
                b.case_insensitive(true);
            }
            if let Some(k) = self.builder {
                b.backtrack_limit(k);
            }
            b.build()
        })
        .ok()
        .and_then(|r| r.ok())
    }
}

pub fn plan_of(f: &Option<IterFault>) -> Vec<(u64, LimitOverride)> {
    match f {
        None => Vec::new(),
        Some(f) => vec![(
            f.j,
            if f.kind == "ble" {
                LimitOverride { backtrack_limit: Some(f.val), max_stack: None }
            } else {
                LimitOverride { backtrack_limit: None, max_stack: Some(f.val) }
            },
        )],
    }
}

pub struct History {
    pub items: Vec<Item>,
    pub calls: Vec<SearchCall>,
    pub runs: Vec<RunStats>,
    /// next() calls made after the end (None or Err) and what they returned
    pub after_end: Vec<Option<Item>>,
    pub ended: bool,
}

fn begin(plan: Vec<(u64, LimitOverride)>) {
    verif::reset_run_ordinal();
    verif::set_fault_plan(plan);
    verif::record_search_calls(true);
    verif::record_run_stats(true);
}

fn end() -> (Vec<SearchCall>, Vec<RunStats>) {
    verif::set_fault_plan(Vec::new());
    let c = verif::take_search_calls();
    let r = verif::take_run_stats();
    verif::record_search_calls(false);
    verif::record_run_stats(false);
    (c, r)
}

/// Step the real iterator to its end (bounded), recording the history.
pub fn real_history(re: &Regex, text: &str, fault: &Option<IterFault>) -> History {
    let cap = text.chars().count() + 3;
    begin(plan_of(fault));
    budget::install();
    let mut items = Vec::new();
    let mut after_end = Vec::new();
    let mut ended = false;
    {
        let mut it = re.find_iter(text);
        while items.len() < cap {
            // a correct next() makes at most two searches (one more after dropping an adjacent
            // empty match); more than four means the iterator is spinning
            budget::arm(budget::DEFAULT_INSNS, 4);
            let r = guarded_plain(|| it.next());
            match r {
                Outcome::Ok(None) => {
                    ended = true;
                    break;
                }
                Outcome::Ok(Some(Ok(m))) => items.push(Item::Match(m.start(), m.end())),
                Outcome::Ok(Some(Err(e))) => {
                    items.push(Item::Err(err_kind(&e)));
                    ended = true;
                    // fused after Err: the next calls must all return None
                    for _ in 0..3 {
                        budget::arm(budget::DEFAULT_INSNS, 4);
                        match guarded_plain(|| it.next()) {
                            Outcome::Ok(None) => after_end.push(None),
                            Outcome::Ok(Some(Ok(m))) => after_end.push(Some(Item::Match(m.start(), m.end()))),
                            Outcome::Ok(Some(Err(e))) => after_end.push(Some(Item::Err(err_kind(&e)))),
                            Outcome::Panic(p) => after_end.push(Some(Item::Panic(p))),
                            Outcome::Err(_) => unreachable!(),
                        }
                    }
                    break;
                }
                Outcome::Panic(p) => {
                    items.push(Item::Panic(p));
                    ended = true;
                    break;
                }
                Outcome::Err(_) => unreachable!(),
            }
        }
    }
    budget::disarm();
    let (calls, runs) = end();
    History { items, calls, runs, after_end, ended }
}

/// The statement, executable: repeatedly take the leftmost match from the previous end; after an
/// empty match step one character; drop an empty match adjacent to the previous match; stop at the
/// first "no match"; an error ends the sequence. `\G` must not hold at a position reached by
/// stepping over an empty match, so the search layer is told about the step.
pub fn model_history(re: &Regex, text: &str, fault: &Option<IterFault>) -> History {
    let cap = text.chars().count() + 3;
    begin(plan_of(fault));
    let mut items = Vec::new();
    let mut pos = 0usize;
    let mut stepped = false;
    let mut prev_end: Option<usize> = None;
    let mut ended = false;
    while items.len() < cap {
        if pos > text.len() {
            ended = true;
            break;
        }
        budget::arm(budget::DEFAULT_INSNS, u64::MAX);
        let r = guarded(|| {
            re.verif_find_with_flags(text, pos, if stepped { 2 } else { 0 })
                .map(|m| m.map(|m| (m.start(), m.end())))
        });
        match r {
            Outcome::Err(e) => {
                items.push(Item::Err(e));
                ended = true;
                break;
            }
            Outcome::Panic(p) => {
                items.push(Item::Panic(p));
                ended = true;
                break;
            }
            Outcome::Ok(None) => {
                ended = true;
                break;
            }
            Outcome::Ok(Some((s, e))) => {
                if s == e {
                    // step one character (one past the end when already at the end)
                    pos = match text.get(e..).and_then(|t| t.chars().next()) {
                        Some(c) => e + c.len_utf8(),
                        None => e + 1,
                    };
                    stepped = true;
                    if Some(e) == prev_end {
                        continue;
                    }
                } else {
                    pos = e;
                    stepped = false;
                }
                prev_end = Some(e);
                items.push(Item::Match(s, e));
            }
        }
    }
    budget::disarm();
    let (calls, runs) = end();
    History { items, calls, runs, after_end: Vec::new(), ended }
}

/// The same iteration, but *without trusting the skipped-empty flag of the search layer*: at a
/// position reached by stepping over an empty match `\\G` cannot hold, so there the search is made
/// with a copy of the regex in which every `\\G` is replaced by the never-matching `(?!)`, through
/// the plain public `find_from_pos`. Fault-free only (the two regexes need different numbers of
/// backtracks, so a limit fault would land differently).
pub fn independent_items(re: &Regex, re_nog: &Regex, text: &str) -> Vec<Item> {
    let cap = text.chars().count() + 3;
    budget::install();
    let mut items = Vec::new();
    let mut pos = 0usize;
    let mut stepped = false;
    let mut prev_end: Option<usize> = None;
    while items.len() < cap && pos <= text.len() {
        budget::arm(budget::DEFAULT_INSNS, u64::MAX);
        let which = if stepped { re_nog } else { re };
        let r = guarded(|| which.find_from_pos(text, pos).map(|m| m.map(|m| (m.start(), m.end()))));
        match r {
            Outcome::Err(e) => {
                items.push(Item::Err(e));
                break;
            }
            Outcome::Panic(p) => {
                items.push(Item::Panic(p));
                break;
            }
            Outcome::Ok(None) => break,
            Outcome::Ok(Some((s, e))) => {
                if s == e {
                    pos = match text.get(e..).and_then(|t| t.chars().next()) {
                        Some(c) => e + c.len_utf8(),
                        None => e + 1,
                    };
                    stepped = true;
                    if Some(e) == prev_end {
                        continue;
                    }
                } else {
                    pos = e;
                    stepped = false;
                }
                prev_end = Some(e);
                items.push(Item::Match(s, e));
            }
        }
    }
    budget::disarm();
    items
}

/// Position independence of the search layer the iterator continues on. A search that continues
/// from byte offset `pos` must find exactly what a search *from 0* finds for the pattern
/// `\\A(?s:.{k,}?)\\K(?:P)` (k = number of characters before `pos`): skip at least k characters, as
/// few as possible, then match P there, reporting P's span. Only searches from position 0 are
/// trusted this way; the iterator's own continuing searches are not. Fault-free, patterns without
/// `\\G` only (`\\G` is about the search position itself).
pub fn shifted_check(re: &Regex, pattern: &str, text: &str, calls: &[SearchCall], st: &mut Stats) -> Option<Found> {
    if pattern.contains("\\G") {
        return None;
    }
    if !re.verif_is_fancy() {
        return shifted_check_delegated(re, pattern, text, calls, st);
    }
    let n_cap = 2 * re.captures_len();
    let Some(own) = grab_program(re).and_then(|p| pattern_part(&p, None, n_cap)) else { return None };
    let mut seen: Vec<usize> = Vec::new();
    budget::install();
    for c in calls {
        let pos = c.pos;
        if pos == 0 || pos > text.len() || !text.is_char_boundary(pos) || seen.contains(&pos) {
            continue;
        }
        seen.push(pos);
        let k = text[..pos].chars().count();
        let q = format!("\\A(?s:.{{{},}}?)\\K(?:{})", k, pattern);
        let Some(rq) = compile(&q) else { continue };
        // Soundness guard: the shifted regex must run *the same instructions* for the pattern's own
        // part as the regex under test does (which sub-expressions are delegated depends on the
        // context a pattern is compiled in, and the two engines are not interchangeable for every
        // pattern - that is C03's business, not this property's). Otherwise: not comparable.
        let same_code = grab_program(&rq).and_then(|p| pattern_part(&p, Some(own.len()), n_cap)).map_or(false, |part| part == own);
        if !same_code {
            st.shifted_not_comparable += 1;
            continue;
        }
        budget::arm(budget::DEFAULT_INSNS, u64::MAX);
        let want = guarded(|| rq.find(text).map(|m| m.map(|m| (m.start(), m.end()))));
        budget::arm(budget::DEFAULT_INSNS, u64::MAX);
        let got = guarded(|| re.find_from_pos(text, pos).map(|m| m.map(|m| (m.start(), m.end()))));
        budget::disarm();
        st.shifted_searches += 1;
        if let (Outcome::Ok(w), Outcome::Ok(g)) = (&want, &got) {
            if w != g {
                return Some(Found {
                    class: "search-depends-on-start-position".into(),
                    detail: format!(
                        "find_from_pos({:?}, {}) returned {:?} ; the same search expressed from position 0 (/{}/, same VM code for the pattern's part) returns {:?}",
                        text, pos, g, q, w
                    ),
                });
            }
        }
    }
    None
}

/// The same idea for a pattern that is handed to regex-automata as a whole (no VM program to
/// compare). A continuing search from byte offset `pos` must report the match of the first
/// character position i >= k (k = characters before `pos`) at which the pattern matches, and that
/// single attempt is expressed as a search from 0: `\\A(?s:.{i})(P)`, group 1. The probe regexes must
/// themselves be delegated as a whole, so both sides are evaluated by the same engine.
fn shifted_check_delegated(re: &Regex, pattern: &str, text: &str, calls: &[SearchCall], st: &mut Stats) -> Option<Found> {
    let total = text.chars().count();
    let mut seen: Vec<usize> = Vec::new();
    budget::install();
    'calls: for c in calls {
        let pos = c.pos;
        if pos == 0 || pos > text.len() || !text.is_char_boundary(pos) || seen.contains(&pos) {
            continue;
        }
        seen.push(pos);
        let k = text[..pos].chars().count();
        let mut want: Option<(usize, usize)> = None;
        let mut probe = String::new();
        for i in k..=total {
            probe = format!("\\A(?s:.{{{}}})({})", i, pattern);
            let Some(rq) = compile(&probe) else {
                st.shifted_not_comparable += 1;
                continue 'calls;
            };
            if rq.verif_is_fancy() {
                st.shifted_not_comparable += 1;
                continue 'calls;
            }
            budget::arm(budget::DEFAULT_INSNS, u64::MAX);
            let r = guarded(|| rq.captures(text).map(|c| c.and_then(|c| c.get(1).map(|m| (m.start(), m.end())))));
            budget::disarm();
            match r {
                Outcome::Ok(Some(span)) => {
                    want = Some(span);
                    break;
                }
                Outcome::Ok(None) => {}
                _ => continue 'calls,
            }
        }
        budget::arm(budget::DEFAULT_INSNS, u64::MAX);
        let got = guarded(|| re.find_from_pos(text, pos).map(|m| m.map(|m| (m.start(), m.end()))));
        budget::disarm();
        st.shifted_searches += 1;
        if let Outcome::Ok(g) = &got {
            if *g != want {
                return Some(Found {
                    class: "search-depends-on-start-position".into(),
                    detail: format!(
                        "find_from_pos({:?}, {}) returned {:?} ; trying each character position from {} on as a search from position 0 (last probe /{}/, group 1) gives {:?}",
                        text, pos, g, k, probe, want
                    ),
                });
            }
        }
    }
    None
}

/// The VM program of a regex, read through the observer hook at the start of a throw-away search.
fn grab_program(re: &Regex) -> Option<Vec<Insn>> {
    struct Grab(std::rc::Rc<std::cell::RefCell<Option<Vec<Insn>>>>);
    impl verif::Observer for Grab {
        fn run_begin(&mut self, info: &verif::RunInfo<'_>) {
            *self.0.borrow_mut() = Some(info.prog.to_vec());
        }
    }
    let cell = std::rc::Rc::new(std::cell::RefCell::new(None));
    let prev = verif::set_observer(Some(Box::new(Grab(cell.clone()))));
    budget::install();
    budget::arm(1_000_000, u64::MAX);
    let _ = guarded(|| re.find_from_pos("", 0).map(|_| ()));
    budget::disarm();
    verif::set_observer(prev);
    let p = cell.borrow_mut().take();
    p
}

/// The instructions that belong to the pattern itself, position-independently rendered: everything
/// between the `Save(0)` that starts the match and the final `Save(1)`, `End`. With `len` given
/// (the shifted regex), the last `len` instructions before `Save(1)`, which must be preceded by the
/// `Save(0)` of the inserted `\K`. Jump targets are made relative, internal slots are renamed in
/// order of first appearance (capture slots keep their numbers).
fn pattern_part(prog: &[Insn], len: Option<usize>, n_cap: usize) -> Option<Vec<String>> {
    let n = prog.len();
    if n < 3 || !matches!(prog[n - 1], Insn::End) || !matches!(prog[n - 2], Insn::Save(1)) {
        return None;
    }
    let from = match len {
        None => prog.iter().position(|i| matches!(i, Insn::Save(0)))? + 1,
        Some(l) => {
            let f = (n - 2).checked_sub(l)?;
            if f == 0 || !matches!(prog[f - 1], Insn::Save(0)) {
                return None;
            }
            f
        }
    };
    let mut slots: Vec<usize> = Vec::new();
    let mut out = Vec::new();
    for pc in from..n - 2 {
        let rel = |t: usize| t as isize - pc as isize;
        let mut sl = |s: usize| -> String {
            if s < n_cap {
                format!("c{}", s)
            } else {
                let i = slots.iter().position(|x| *x == s).unwrap_or_else(|| {
                    slots.push(s);
                    slots.len() - 1
                });
                format!("i{}", i)
            }
        };
        out.push(match &prog[pc] {
            Insn::Split(x, y) => format!("Split({},{})", rel(*x), rel(*y)),
            Insn::Jmp(t) => format!("Jmp({})", rel(*t)),
            Insn::Save(s) => format!("Save({})", sl(*s)),
            Insn::Save0(s) => format!("Save0({})", sl(*s)),
            Insn::Restore(s) => format!("Restore({})", sl(*s)),
            Insn::Backref(s) => format!("Backref({})", sl(*s)),
            Insn::RepeatGr { lo, hi, next, repeat } => format!("RepeatGr({},{},{},{})", lo, hi, rel(*next), sl(*repeat)),
            Insn::RepeatNg { lo, hi, next, repeat } => format!("RepeatNg({},{},{},{})", lo, hi, rel(*next), sl(*repeat)),
            Insn::RepeatEpsilonGr { lo, next, repeat, check } => format!("RepeatEpsilonGr({},{},{},{})", lo, rel(*next), sl(*repeat), sl(*check)),
            Insn::RepeatEpsilonNg { lo, next, repeat, check } => format!("RepeatEpsilonNg({},{},{},{})", lo, rel(*next), sl(*repeat), sl(*check)),
            other => format!("{:?}", other),
        });
    }
    Some(out)
}

/// Copy of the pattern with every `\\G` replaced by `(?!)`; None when the pattern has no `\\G`.
/// (Workload patterns never contain an escaped backslash followed by `G`.)
pub fn without_continue_g(pattern: &str) -> Option<String> {
    if pattern.contains("\\G") && !pattern.contains("\\\\G") {
        Some(pattern.replace("\\G", "(?!)"))
    } else {
        None
    }
}

/// The yielded sequence is the same whichever `Iterator` method consumes it: after `taken` items
/// were taken with `next()`, `count()`, `last()` and `nth(j)` must agree with the sequence that
/// stepping with `next()` alone yields (an iterator type may override those methods).
pub fn consumption_check(re: &Regex, text: &str, full: &[Item], taken: usize, j: usize) -> Option<Found> {
    if full.iter().any(|i| matches!(i, Item::Panic(_))) || taken > full.len() {
        return None;
    }
    let item_of = |r: Option<fancy_regex::Result<fancy_regex::Match<'_>>>| -> Option<Item> {
        r.map(|r| match r {
            Ok(m) => Item::Match(m.start(), m.end()),
            Err(e) => Item::Err(err_kind(&e)),
        })
    };
    budget::install();
    let rest = &full[taken..];
    for mode in 0..5 {
        let mut it = re.find_iter(text);
        let mut ok_prefix = true;
        for k in 0..taken {
            budget::arm(budget::DEFAULT_INSNS, 4);
            match guarded_plain(|| it.next()) {
                Outcome::Ok(x) => {
                    if item_of(x).as_ref() != full.get(k) {
                        ok_prefix = false;
                    }
                }
                _ => ok_prefix = false,
            }
        }
        if !ok_prefix {
            budget::disarm();
            return None; // the stepping itself differs: reported by the main check
        }
        budget::arm(budget::DEFAULT_INSNS, 2 * (text.chars().count() as u64 + 3) + 6);
        let (what, got, want): (&str, Outcome<String>, String) = match mode {
            0 => ("count()", guarded_plain(|| format!("{}", it.count())), format!("{}", rest.len())),
            1 => ("last()", guarded_plain(|| format!("{:?}", item_of(it.last()))), format!("{:?}", rest.last().cloned())),
            2 => ("nth(j)", guarded_plain(|| format!("{:?}", item_of(it.nth(j)))), format!("{:?}", rest.get(j).cloned())),
            3 => (
                "for_each collection",
                guarded_plain(|| {
                    let mut v = Vec::new();
                    it.for_each(|x| v.push(item_of(Some(x)).unwrap()));
                    format!("{:?}", v)
                }),
                format!("{:?}", rest.to_vec()),
            ),
            _ => (
                // the hint must bracket what is really left
                "size_hint() bracketing the remaining items",
                guarded_plain(|| {
                    let (lo, hi) = it.size_hint();
                    format!("{}", lo <= rest.len() && hi.map_or(true, |h| h >= rest.len()))
                }),
                "true".to_string(),
            ),
        };
        budget::disarm();
        match got {
            Outcome::Ok(g) if g == want => {}
            Outcome::Panic(m) if m == budget::INSN_PAYLOAD => return None,
            other => {
                return Some(Found {
                    class: "iterator-method-disagrees-with-next".into(),
                    detail: format!(
                        "after {} item(s) taken with next(), {}{} returned {} ; stepping with next() yields {:?}, so it must be {}",
                        taken, what, if mode == 2 { format!(" with j = {}", j) } else { String::new() }, other.show(), full, want
                    ),
                })
            }
        }
    }
    None
}

/// In-run invariants of the statement that do not need the model.
pub fn invariants(text: &str, h: &History) -> Option<(&'static str, String)> {
    let chars = text.chars().count();
    if let Some(Item::Panic(m)) = h.items.last() {
        if m == budget::SEARCH_PAYLOAD {
            return Some((
                "iterator-does-not-terminate",
                format!("next() call #{} made more than 4 searches without returning (items so far: {:?})", h.items.len(), &h.items[..h.items.len() - 1]),
            ));
        }
    }
    for a in h.after_end.iter().flatten() {
        if matches!(a, Item::Panic(m) if m == budget::SEARCH_PAYLOAD) {
            return Some(("iterator-does-not-terminate", "a next() call after the Err item made more than 4 searches without returning".to_string()));
        }
    }
    let n_matches = h.items.iter().filter(|i| matches!(i, Item::Match(..))).count();
    if !h.ended || n_matches > chars + 1 {
        return Some((
            "iterator-does-not-terminate",
            format!("{} items from a text of {} characters (ended: {}): {:?}", h.items.len(), chars, h.ended, &h.items[..h.items.len().min(6)]),
        ));
    }
    let mut prev: Option<(usize, usize)> = None;
    for (i, it) in h.items.iter().enumerate() {
        match it {
            Item::Match(s, e) => {
                if !(s <= e && *e <= text.len() && text.is_char_boundary(*s) && text.is_char_boundary(*e)) {
                    return Some(("invalid-span", format!("item #{} = ({},{}) in a text of {} bytes", i, s, e, text.len())));
                }
                if let Some((ps, pe)) = prev {
                    if *s < pe {
                        return Some(("items-overlap", format!("item #{} = ({},{}) starts before the previous match ({},{}) ended", i, s, e, ps, pe)));
                    }
                    if *e <= pe {
                        return Some(("items-not-increasing", format!("item #{} = ({},{}) after ({},{})", i, s, e, ps, pe)));
                    }
                }
                prev = Some((*s, *e));
            }
            Item::Err(_) | Item::Panic(_) => {
                if i + 1 != h.items.len() {
                    return Some(("items-after-error", format!("item #{} is {:?} but {} items follow", i, it, h.items.len() - i - 1)));
                }
            }
        }
    }
    for (i, a) in h.after_end.iter().enumerate() {
        if let Some(x) = a {
            return Some(("not-fused-after-error", format!("next() call #{} after the Err item returned {:?}", i + 1, x)));
        }
    }
    None
}

#[derive(Default, Clone, Debug)]
pub struct Stats {
    pub histories: u64,
    pub next_calls: u64,
    pub searches: u64,
    pub vm_insns: u64,
    pub faults_configured: u64,
    pub faults_fired: u64,
    pub err_first: u64,
    pub err_middle: u64,
    pub err_last: u64,
    pub empty_skipped: u64,
    pub adjacent_dropped: u64,
    pub multibyte_step: u64,
    pub g_refused_after_skip: u64,
    pub builder_cases: u64,
    pub interleaved: u64,
    pub budget_skipped: u64,
    pub independent_g_models: u64,
    pub shifted_searches: u64,
    pub consumption_checks: u64,
    pub shifted_not_comparable: u64,
    pub keepout_overlaps_tolerated: u64,
    pub long_texts: u64,
    pub max_items: u64,
    pub nontrivial: bool,
    pub digest: u64,
}

fn probe_history(text: &str, h: &History, st: &mut Stats) {
    st.histories += 1;
    st.max_items = st.max_items.max(h.items.len() as u64);
    st.next_calls += h.items.len() as u64 + 1;
    st.searches += h.calls.len() as u64;
    for r in &h.runs {
        st.vm_insns += r.insns;
    }
    let mut prev_end = None;
    for it in &h.items {
        if let Item::Match(s, e) = it {
            if s == e {
                st.empty_skipped += 1;
                if text.get(*e..).and_then(|t| t.chars().next()).map_or(false, |c| c.len_utf8() > 1) {
                    st.multibyte_step += 1;
                }
            }
            prev_end = Some(*e);
        }
    }
    let _ = prev_end;
    // adjacent empty match dropped: more successful searches than yielded matches
    let matches = h.items.iter().filter(|i| matches!(i, Item::Match(..))).count();
    let found_searches = h.runs.iter().filter(|r| r.end == EndReason::Match).count();
    if !h.runs.is_empty() && found_searches > matches {
        st.adjacent_dropped += (found_searches - matches) as u64;
    }
    st.g_refused_after_skip += h.calls.iter().filter(|c| c.option_flags & 2 != 0).count() as u64;
    let mut d = Fnv(st.digest ^ 0x77);
    d.str(&format!("{:?}", h.items));
    d.u64(h.calls.len() as u64);
    st.digest = d.0;
}

pub struct Found {
    pub class: String,
    pub detail: String,
}

/// Check one (regex, text, fault): real history vs invariants vs model, and (under a fault) the
/// narrow expectation against the fault-free history.
pub fn check_one(re: &Regex, re_nog: Option<&Regex>, text: &str, fault: &Option<IterFault>, ff: Option<&History>, st: &mut Stats) -> Option<Found> {
    check_one_shifted(re, re_nog, None, text, fault, ff, st)
}

/// `shift`: the pattern text, when the position-independence oracle is to be applied as well.
pub fn check_one_shifted(re: &Regex, re_nog: Option<&Regex>, shift: Option<&str>, text: &str, fault: &Option<IterFault>, ff: Option<&History>, st: &mut Stats) -> Option<Found> {
    let real = real_history(re, text, fault);
    if let Some(Item::Panic(msg)) = real.items.last() {
        st.histories += 1;
        if msg == budget::INSN_PAYLOAD {
            // a single search exceeded the instruction budget: too heavy for this workload (whether
            // it terminates at all is C07's business, decided there by the progress monitor)
            st.budget_skipped += 1;
            return None;
        }
        if msg != budget::SEARCH_PAYLOAD {
            // The iterator panicked. If the statement's own iteration over the same search layer
            // panics too, the panic is the search's (C05's business); otherwise it is the
            // iterator's, e.g. a search started inside a multi-byte character.
            let model = model_history(re, text, fault);
            return match model.items.last() {
                Some(Item::Panic(_)) => None,
                _ => Some(Found {
                    class: if fault.is_some() { "fault-panic".into() } else { "iterator-panic".into() },
                    detail: format!("find_iter panicked ({}) after yielding {:?}; the statement's iteration over the same search layer{} yields {:?} without panicking", msg, &real.items[..real.items.len() - 1], if fault.is_some() { format!(" under fault {:?}", fault) } else { String::new() }, model.items),
                }),
            };
        }
    }
    if let Some((c, d)) = invariants(text, &real) {
        return Some(Found { class: c.into(), detail: d });
    }
    probe_history(text, &real, st);
    let model = model_history(re, text, fault);
    if real.items != model.items {
        return Some(Found {
            class: "sequence-differs-from-model".into(),
            detail: format!("find_iter yielded {:?} ; the statement's iteration over the same search layer yields {:?}", real.items, model.items),
        });
    }
    if real.calls != model.calls {
        return Some(Found {
            class: "search-calls-differ-from-model".into(),
            detail: format!("find_iter searched {:?} ; the statement's iteration searches {:?}", short_calls(&real.calls), short_calls(&model.calls)),
        });
    }
    if let (None, Some(p)) = (fault, shift) {
        if !matches!(real.items.last(), Some(Item::Err(_))) {
            if let Some(f) = shifted_check(re, p, text, &real.calls, st) {
                return Some(f);
            }
        }
    }
    if let (None, Some(nog)) = (fault, re_nog) {
        if !matches!(real.items.last(), Some(Item::Err(_))) {
            let ind = independent_items(re, nog, text);
            st.independent_g_models += 1;
            if !matches!(ind.last(), Some(Item::Err(_) | Item::Panic(_))) && ind != real.items {
                return Some(Found {
                    class: "continue-anchor-after-skipped-empty-match".into(),
                    detail: format!("find_iter yielded {:?} ; iterating with \\G replaced by (?!) at positions reached by stepping over an empty match (where \\G cannot hold) yields {:?}", real.items, ind),
                });
            }
        }
    }
    if let (Some(f), Some(ff)) = (fault, ff) {
        st.faults_configured += 1;
        let fired = real.runs.iter().any(|r| r.ordinal == f.j && matches!(r.end, EndReason::BacktrackLimit | EndReason::StackOverflow));
        if fired {
            st.faults_fired += 1;
            let expect_kind = if f.kind == "ble" { ErrKind::BacktrackLimit } else { ErrKind::StackOverflow };
            match real.items.last() {
                Some(Item::Err(k)) if *k == expect_kind => {}
                other => {
                    return Some(Found {
                        class: "fired-fault-not-reported".into(),
                        detail: format!("search #{} aborted with {:?} but the iterator's last item is {:?}", f.j, expect_kind, other),
                    })
                }
            }
            let n = real.items.len() - 1;
            if n > ff.items.len() || real.items[..n] != ff.items[..n] {
                return Some(Found {
                    class: "prefix-before-fault-differs".into(),
                    detail: format!("items before the aborted search {:?} are not a prefix of the fault-free sequence {:?}", &real.items[..n], ff.items),
                });
            }
            // which search of the iteration failed
            let total = ff.runs.len() as u64;
            if f.j == 0 {
                st.err_first += 1;
            } else if f.j + 1 >= total {
                st.err_last += 1;
            } else {
                st.err_middle += 1;
            }
        } else if real.items != ff.items {
            return Some(Found {
                class: "unfired-fault-changed-result".into(),
                detail: format!("fault {:?} did not fire, yet the sequence {:?} differs from the fault-free {:?}", f, real.items, ff.items),
            });
        }
    }
    None
}

fn short_calls(c: &[SearchCall]) -> Vec<(usize, u32)> {
    c.iter().map(|c| (c.pos, c.option_flags)).collect()
}

/// Full check of a case: fault-free first, then the given fault.
pub fn check_case(case: &Case, st: &mut Stats) -> Option<Found> {
    let re = case.build()?;
    let nog = case.build_nog();
    let ff = real_history(&re, &case.text, &None);
    let shift = if case.shift && case.builder.is_none() && !case.ci { Some(case.pattern.as_str()) } else { None };
    if case.fault.is_none() {
        return check_one_shifted(&re, nog.as_ref(), shift, &case.text, &None, None, st);
    }
    check_one(&re, nog.as_ref(), &case.text, &case.fault, Some(&ff), st)
}

pub fn replay(case: &Value) -> Option<(String, String)> {
    if case["kind"].as_str() == Some("c08-interleaved") {
        return replay_interleaved(case);
    }
    if case["kind"].as_str() == Some("c08-consumption") {
        let c = Case { pattern: case["pattern"].as_str()?.to_string(), text: case["text"].as_str()?.to_string(), fault: None, builder: case["builder"].as_u64().map(|x| x as usize), ci: case["ci"].as_bool().unwrap_or(false), shift: false };
        let re = c.build()?;
        let full = real_history(&re, &c.text, &None).items;
        return consumption_check(&re, &c.text, &full, case["taken"].as_u64()? as usize, case["j"].as_u64()? as usize).map(|f| (f.class, f.detail));
    }
    let c = Case::from_json(case)?;
    let mut st = Stats::default();
    check_case(&c, &mut st).map(|f| (f.class, f.detail))
}

fn class_of(case: &Case) -> Option<String> {
    let mut st = Stats::default();
    check_case(case, &mut st).map(|f| f.class)
}

fn minimise(case: &Case, ast: Option<&Node>, class: &str) -> Case {
    let mut cur = case.clone();
    if cur.fault.is_some() {
        let mut c = cur.clone();
        c.fault = None;
        if class_of(&c).as_deref() == Some(class) {
            cur = c;
        }
    }
    loop {
        let mut progressed = false;
        for t in gen::text_shrinks(&cur.text) {
            let mut c = cur.clone();
            c.text = t;
            if class_of(&c).as_deref() == Some(class) {
                cur = c;
                progressed = true;
                break;
            }
        }
        if !progressed {
            break;
        }
    }
    if let Some(ast) = ast {
        let base = cur.clone();
        let small = minimise_ast(ast, &|p: &str| {
            let mut c = base.clone();
            c.pattern = p.to_string();
            class_of(&c).as_deref() == Some(class)
        });
        let mut c = cur.clone();
        c.pattern = small.render();
        if class_of(&c).as_deref() == Some(class) {
            cur = c;
        }
    }
    cur
}

// ------------------------------------------------------------------------------------------------
// several iterators over one regex, stepped interleaved on one thread

fn interleaved(re: &Regex, texts: &[String], order: &[usize]) -> Option<Found> {
    // standalone histories first
    let alone: Vec<Vec<Item>> = texts.iter().map(|t| real_history(re, t, &None).items).collect();
    let mut its: Vec<_> = texts.iter().map(|t| re.find_iter(t)).collect();
    let mut got: Vec<Vec<Item>> = vec![Vec::new(); texts.len()];
    let mut done = vec![false; texts.len()];
    for &k in order {
        if done[k] {
            continue;
        }
        budget::arm(budget::DEFAULT_INSNS, 4);
        match guarded_plain(|| its[k].next()) {
            Outcome::Ok(None) => done[k] = true,
            Outcome::Ok(Some(Ok(m))) => got[k].push(Item::Match(m.start(), m.end())),
            Outcome::Ok(Some(Err(e))) => {
                got[k].push(Item::Err(err_kind(&e)));
                done[k] = true
            }
            Outcome::Panic(p) => {
                got[k].push(Item::Panic(p));
                done[k] = true
            }
            Outcome::Err(_) => unreachable!(),
        }
        if got[k].len() > texts[k].chars().count() + 3 {
            done[k] = true;
        }
    }
    for k in 0..texts.len() {
        let n = got[k].len();
        let complete = done[k];
        let expect = &alone[k];
        let ok = if complete { &got[k] == expect } else { n <= expect.len() && got[k][..] == expect[..n] };
        if !ok {
            return Some(Found {
                class: "interleaved-iterators-interfere".into(),
                detail: format!("iterator #{} over {:?} yielded {:?} when stepped interleaved (order {:?}); alone it yields {:?}", k, texts[k], got[k], order, expect),
            });
        }
    }
    None
}

fn replay_interleaved(case: &Value) -> Option<(String, String)> {
    let pattern = case["pattern"].as_str()?;
    let builder = case["builder"].as_u64().map(|x| x as usize);
    let c = Case { pattern: pattern.to_string(), text: String::new(), fault: None, builder, ci: case["ci"].as_bool().unwrap_or(false), shift: false };
    let re = c.build()?;
    let texts: Vec<String> = case["texts"].as_array()?.iter().map(|t| t.as_str().unwrap_or("").to_string()).collect();
    let order: Vec<usize> = case["order"].as_array()?.iter().map(|t| t.as_u64().unwrap_or(0) as usize).collect();
    interleaved(&re, &texts, &order).map(|f| (f.class, f.detail))
}

// ------------------------------------------------------------------------------------------------

fn gen_cfg(rng: &mut Rng) -> GenCfg {
    let mut cfg = GenCfg::swarm(rng);
    // known finding: \K inside a look-behind can move the match start before the search position.
    // A quarter of the runs do generate such patterns; a history that then shows the finding's
    // signature (an item that starts before / does not end after the previous one, for a pattern
    // with \K inside a look-around) is counted and not reported; every other check still applies.
    cfg.allow_keepout_in_look = rng.chance(1, 4);
    cfg.allow_cond_in_atomic = true;
    cfg.allow_continue_g = rng.chance(2, 3);
    cfg
}

struct JobOut {
    st: Stats,
    nontrivial_hashes: Vec<u64>,
    sample: Option<Value>,
}

/// Signature of the listed finding: for a pattern with \K inside a look-around, an item that
/// starts before the previous item's end, or does not end after it - including the same item
/// yielded again and again (the match ends where the search started, so the iterator never moves).
fn is_keepout_signature(class: &str) -> bool {
    class == "items-overlap" || class == "items-not-increasing" || class == "iterator-does-not-terminate"
}

fn job(seed: u64, i: u64, keepout_listed: bool) -> (JobOut, Option<Violation>) {
    let mut rng = Rng::new(derive(seed, i));
    let mut out = JobOut { st: Stats::default(), nontrivial_hashes: Vec::new(), sample: None };
    let cfg = gen_cfg(&mut rng);
    for k in 0..4 {
        let mut keepout_in_look = false;
        let (pattern, ast) = if k == 0 && i % 2 == 0 {
            (gen::CORPUS[((i / 2) as usize) % gen::CORPUS.len()].to_string(), None)
        } else {
            let ast = gen::gen_pattern(&mut rng, &cfg);
            if ast.facts().keepout_in_look {
                if !keepout_listed {
                    continue;
                }
                keepout_in_look = true;
            }
            (ast.render(), Some(ast))
        };
        let builder = if rng.chance(1, 10) { Some(*rng.pick(&[0usize, 1, 2, 3, 5, 10])) } else { None };
        // the position-independence oracle costs a regex compilation per search: sampled
        // the builder's other option: now and then the whole case runs on a regex built
        // case-insensitively (texts carry a few upper-case letters for it to matter)
        let ci = rng.chance(1, 10);
        let shift = builder.is_none() && !ci && (keepout_in_look || rng.chance(1, 12));
        let mut case = Case { pattern: pattern.clone(), text: String::new(), fault: None, builder, ci, shift };
        let Some(re) = case.build() else { continue };
        let nog = case.build_nog();
        if builder.is_some() {
            out.st.builder_cases += 1;
        }
        for _ in 0..3 {
            case.text = if rng.chance(1, gen::long_text_odds()) { gen::gen_long_text(&mut rng) } else { gen::gen_text(&mut rng, 8) };
            if case.text.len() > 40 {
                out.st.long_texts += 1;
            }
            case.fault = None;
            // fault-free
            let ff = real_history(&re, &case.text, &None);
            let mut found = check_one_shifted(&re, nog.as_ref(), if shift { Some(pattern.as_str()) } else { None }, &case.text, &None, None, &mut out.st);
            if keepout_in_look && found.as_ref().map_or(false, |f| is_keepout_signature(&f.class)) {
                // the listed finding, recognised by its signature: count it, nothing more to learn
                // from this history
                out.st.keepout_overlaps_tolerated += 1;
                continue;
            }
            if found.is_none() && !keepout_in_look && rng.chance(1, 6) {
                let taken = rng.below(ff.items.len() + 1);
                let j = rng.below(3);
                out.st.consumption_checks += 1;
                if let Some(f) = consumption_check(&re, &case.text, &ff.items, taken, j) {
                    let replay = json!({"kind": "c08-consumption", "pattern": pattern, "builder": builder, "ci": ci, "text": case.text, "taken": taken, "j": j});
                    return (out, Some(Violation::new(PROP, &f.class, f.detail, replay)));
                }
            }
            let nontrivial_ff = ff.items.len() >= 2 || ff.items.iter().any(|it| matches!(it, Item::Match(s, e) if s == e));
            let mut fired_any = false;
            // faults: search #j in {first, last, random}, k/d around that search's own thresholds
            if found.is_none() && builder.is_none() && !ff.runs.is_empty() && !matches!(ff.items.last(), Some(Item::Panic(_) | Item::Err(_))) {
                let nruns = ff.runs.len();
                let mut js = vec![0, nruns - 1, rng.below(nruns)];
                js.sort();
                js.dedup();
                for j in js {
                    let rs = ff.runs[j];
                    let mut fs = Vec::new();
                    if rs.backtracks > 0 {
                        fs.push(("ble", rng.below(rs.backtracks as usize)));
                        fs.push(("ble", rs.backtracks as usize)); // exactly enough: must not fire
                    }
                    if rs.peak_depth > 0 {
                        fs.push(("so", rng.below(rs.peak_depth)));
                    }
                    for (kind, val) in fs {
                        case.fault = Some(IterFault { j: j as u64, kind: kind.to_string(), val });
                        let before = out.st.faults_fired;
                        found = check_one(&re, nog.as_ref(), &case.text, &case.fault, Some(&ff), &mut out.st);
                        if keepout_in_look && found.as_ref().map_or(false, |f| is_keepout_signature(&f.class)) {
                            out.st.keepout_overlaps_tolerated += 1;
                            found = None;
                        }
                        if out.st.faults_fired > before {
                            fired_any = true;
                        }
                        if found.is_some() {
                            break;
                        }
                    }
                    if found.is_some() {
                        break;
                    }
                }
            }
            if nontrivial_ff || fired_any {
                out.st.nontrivial = true;
                let mut h = Fnv::new();
                h.str(&case.pattern);
                h.str(&case.text);
                out.nontrivial_hashes.push(h.0);
                if out.sample.is_none() {
                    out.sample = Some(json!({"pattern": case.pattern, "text": case.text, "fault_free_items": format!("{:?}", ff.items), "searches": ff.calls.len()}));
                }
            }
            if let Some(f) = found {
                let m = minimise(&case, ast.as_ref(), &f.class);
                let mut st = Stats::default();
                let detail = check_case(&m, &mut st).map(|x| x.detail).unwrap_or(f.detail);
                return (out, Some(Violation::new(PROP, &f.class, detail, m.to_json())));
            }
        }
        // interleaved stepping of 2..3 iterators over this regex (not for patterns that can show
        // the listed \K-in-look-around finding: their iterators need not even terminate)
        if !keepout_in_look && rng.chance(1, 3) {
            let n = rng.range(2, 3);
            let texts: Vec<String> = (0..n).map(|_| gen::gen_text(&mut rng, 6)).collect();
            let steps = rng.range(4, 24);
            let order: Vec<usize> = (0..steps).map(|_| rng.below(n)).collect();
            out.st.interleaved += 1;
            if let Some(f) = interleaved(&re, &texts, &order) {
                let replay = json!({"kind": "c08-interleaved", "pattern": pattern, "builder": builder, "ci": ci, "texts": texts, "order": order});
                return (out, Some(Violation::new(PROP, &f.class, f.detail, replay)));
            }
        }
    }
    (out, None)
}

fn add(a: &mut Stats, b: &Stats) {
    a.histories += b.histories;
    a.next_calls += b.next_calls;
    a.searches += b.searches;
    a.vm_insns += b.vm_insns;
    a.faults_configured += b.faults_configured;
    a.faults_fired += b.faults_fired;
    a.err_first += b.err_first;
    a.err_middle += b.err_middle;
    a.err_last += b.err_last;
    a.empty_skipped += b.empty_skipped;
    a.adjacent_dropped += b.adjacent_dropped;
    a.multibyte_step += b.multibyte_step;
    a.g_refused_after_skip += b.g_refused_after_skip;
    a.builder_cases += b.builder_cases;
    a.interleaved += b.interleaved;
    a.budget_skipped += b.budget_skipped;
    a.independent_g_models += b.independent_g_models;
    a.shifted_searches += b.shifted_searches;
    a.consumption_checks += b.consumption_checks;
    a.shifted_not_comparable += b.shifted_not_comparable;
    a.keepout_overlaps_tolerated += b.keepout_overlaps_tolerated;
    a.long_texts += b.long_texts;
    a.max_items = a.max_items.max(b.max_items);
    a.digest ^= b.digest.rotate_left(7);
}

pub fn digest(seed: u64, n: u64, workers: usize) -> Vec<u64> {
    let (res, _) = run_batch(n, workers, move |i| {
        let (o, v) = job(seed, i, true);
        let mut d = Fnv(o.st.digest);
        d.u64(o.st.histories);
        d.u64(v.is_some() as u64);
        (d.0, None)
    });
    res.into_iter().map(|(_, d)| d).collect()
}

/// Fixed witnesses of the recorded finding. Returns Err(violation) when a witness fails in a way
/// that is not listed.
fn known_witnesses(known: &[KnownFinding], lines: &mut Vec<String>) -> Result<(), Violation> {
    for (p, t) in KEEPOUT_WITNESSES {
        let case = Case { pattern: p.to_string(), text: t.to_string(), fault: None, builder: None, ci: false, shift: false };
        let mut st = Stats::default();
        if let Some(f) = check_case(&case, &mut st) {
            let listed = is_keepout_signature(&f.class).then(|| is_known(known, PROP, KNOWN_KEY_KEEPOUT)).flatten();
            match listed {
                Some(k) => lines.push(format!("KNOWN-FINDING: property={} {} [witness /{}/ on {:?}: {}]", PROP, k.what, p, t, f.detail)),
                None => return Err(Violation::new(PROP, &f.class, f.detail, case.to_json())),
            }
        }
    }
    Ok(())
}

pub fn run(opts: &Opts) -> i32 {
    let t0 = now();
    let thorough = opts.tier == Tier::Thorough;
    let n = if opts.budget > 0 { opts.budget } else if thorough { 12_000_000 } else { 300_000 };
    let seed = opts.seed;
    let known = load_known_findings();
    let mut known_lines = Vec::new();
    if let Err(v) = known_witnesses(&known, &mut known_lines) {
        let path = write_replay(&v, seed);
        report_violation(&v, &path);
        return 1;
    }
    for l in &known_lines {
        println!("{}", l);
    }
    let keepout_listed = is_known(&known, PROP, KNOWN_KEY_KEEPOUT).is_some();
    let mut st = Stats::default();
    let mut nt = Distinct::new();
    let mut samples = Vec::new();
    let (jobs_done, viol) = run_batch_chunked(n, opts.workers, move |i| job(seed, i, keepout_listed), |_, r| {
        add(&mut st, &r.st);
        nt.extend(r.nontrivial_hashes.iter());
        if samples.len() < 4 {
            if let Some(s) = &r.sample {
                samples.push(s.clone());
            }
        }
    });
    let wall = t0.elapsed().as_secs_f64();
    let mut code = 0;
    let mut violations = 0;
    if let Some((i, v)) = &viol {
        violations = 1;
        let path = write_replay(v, derive(seed, *i));
        let again = replay(&v.replay);
        if again.as_ref().map(|(c, _)| c.as_str()) != Some(v.class.as_str()) {
            eprintln!("harness error: C08 violation did not reproduce on replay: {:?} vs {}", again, v.class);
            return 2;
        }
        report_violation(v, &path);
        code = 1;
    }
    if samples.is_empty() {
        samples.push(json!("no non-trivial history in this run"));
    }
    if opts.write_evidence {
        let mut extra = serde_json::Map::new();
        extra.insert("histories".into(), json!(st.histories));
        extra.insert("next_calls".into(), json!(st.next_calls));
        extra.insert("faults".into(), json!({
            "limit_fault_on_search_j_configured": st.faults_configured,
            "limit_fault_on_search_j_fired": st.faults_fired,
            "configured_not_fired": st.faults_configured - st.faults_fired,
            "builder_limit_regexes": st.builder_cases,
        }));
        extra.insert("logical_time".into(), json!({"vm_instructions": st.vm_insns, "lower_layer_searches": st.searches}));
        extra.insert("probes".into(), json!({
            "empty_match_yielded_and_stepped_over": st.empty_skipped,
            "adjacent_empty_match_dropped": st.adjacent_dropped,
            "multi_byte_step_after_empty_match": st.multibyte_step,
            "searches_told_an_empty_match_was_skipped": st.g_refused_after_skip,
            "error_at_first_search": st.err_first,
            "error_at_middle_search": st.err_middle,
            "error_at_last_search": st.err_last,
            "interleaved_iterator_scenarios": st.interleaved,
            "histories_skipped_over_instruction_budget": st.budget_skipped,
            "histories_also_checked_against_flag_independent_G_model": st.independent_g_models,
            "continuing_searches_cross_checked_against_a_search_from_position_0": st.shifted_searches,
            "histories_also_consumed_through_count_last_nth_after_some_next_calls": st.consumption_checks,
            "continuing_searches_not_comparable_that_way_different_vm_code": st.shifted_not_comparable,
            "generated_histories_showing_the_listed_keepout_overlap_signature": st.keepout_overlaps_tolerated,
            "texts_of_40_to_250_characters": st.long_texts,
            "most_items_yielded_by_one_iteration": st.max_items,
        }));
        extra.insert("runs_per_hour".into(), json!(((st.histories as f64) / wall.max(1e-9) * 3600.0) as u64));
        extra.insert("seeds".into(), json!(format!("derive({}, 0..{})", seed, jobs_done)));
        extra.insert("real_vs_stub".into(), json!({
            "real": ["Regex::find_iter / Matches::next", "the search primitive find_from_pos_with_option_flags", "vm::run", "regex-automata"],
            "model": ["executable transcription of the statement (sim/src/c08.rs model_history), querying the same real search layer under the same fault plan"],
            "stubbed": ["limits of search #j overridden through the H2 hook"],
        }));
        extra.insert("known_findings_reported".into(), json!(known_lines));
        Evidence {
            property: PROP.into(),
            tier: opts.tier,
            seed,
            level: "exploration",
            evaluations: st.histories,
            distinct_nontrivial: nt.len() as u64,
            rule: "history = find_iter stepped to its end on (pattern, text), fault-free and with a limit fault on search #j (first/last/random; k,d drawn below and at that search's own thresholds); non-trivial = >= 2 items, or an empty match, or a fired fault; distinct by hash of (pattern, text)".into(),
            samples,
            extra,
            assumptions: vec![
                "the answer of each single search is trusted (C01/C02 not decided here)".into(),
                "a generated history that shows the listed \\K-in-look-behind signature (item starting before / not ending after the previous one, pattern with \\K inside a look-around) is counted, not reported".into(),
                "searches from position 0 are trusted; continuing searches are cross-checked against them on a sample (position-independence oracle)".into(),
            ],
            wall_s: wall,
            violations,
        }
        .write();
    }
    println!(
        "C08 {}: {} histories, {} faults fired of {} configured, {} distinct non-trivial, {:.1}s",
        opts.tier.name(), st.histories, st.faults_fired, st.faults_configured, nt.len(), wall
    );
    code
}
