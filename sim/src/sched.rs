//! Baton scheduler: simulated caller threads are real OS threads, but exactly one of them runs at
//! any time. At every yield point the running thread asks the scheduler — which draws from the
//! run's single PRNG, or follows a recorded schedule — whether to keep going or hand the baton to
//! another runnable thread. A run is therefore a pure function of (seed, code); the schedule is the
//! list of hand-offs and is what the replay file stores.
//!
//! Foreign blocking (code under test blocking on an OS lock held by a parked thread): the baton
//! holder stops reaching yield points. A wall-clock watchdog then switches the run to free-running
//! mode (all threads released, yields become no-ops). Results are still judged — any real execution
//! is a legal schedule — but the run is flagged and not claimed to be replayable. If nothing
//! finishes even then, it is a deadlock.

use crate::rng::{Fnv, Rng};
use std::cell::RefCell;
use std::sync::{Arc, Condvar, Mutex};
use std::time::Duration;

#[derive(Clone, Debug, PartialEq, Eq)]
pub enum Policy {
    /// switch with probability 1/q at every yield point
    Uniform { q: usize },
    /// `points` preemption points at fixed decision indices, otherwise run to completion
    Pct { points: Vec<u64> },
    /// switch (probability 1/2) only at API-level seams, never inside a search
    OpBoundary,
    /// follow a recorded schedule: (decision index, thread to run)
    Forced { handoffs: Vec<(u64, usize)> },
}

pub const DECISION_BUDGET_PAYLOAD: &str = "frsim-budget-scheduler-decisions";
pub const SITE_OP_BOUNDARY: u32 = 100;
pub const SITE_FINISH: u32 = 101;

#[derive(Default, Clone, Debug)]
pub struct SchedStats {
    pub decisions: u64,
    pub handoffs: u64,
    pub site_counts: Vec<u64>,
    pub max_in_flight: usize,
    pub overlap_decisions: u64,
    pub free_run: bool,
}

struct Inner {
    rng: Rng,
    policy: Policy,
    running: usize,
    alive: Vec<bool>,
    started: bool,
    free_run: bool,
    decision: u64,
    handoffs: Vec<(u64, usize)>,
    stats: SchedStats,
    /// per thread: currently inside a search (between a search entry seam and the op's end)
    in_search: Vec<bool>,
    max_decisions: u64,
    budget_exhausted: bool,
    /// position in a forced schedule (its entries are in increasing decision order)
    forced_cursor: usize,
}

/// Forced schedules: the thread recorded for decision `d`, if any. The list is in increasing
/// decision order and decisions only grow, so a cursor replaces a scan (volume runs record
/// thousands of hand-offs over millions of decisions).
fn forced_lookup(policy: &Policy, cursor: &mut usize, d: u64) -> Option<usize> {
    if let Policy::Forced { handoffs } = policy {
        while *cursor < handoffs.len() && handoffs[*cursor].0 < d {
            *cursor += 1;
        }
        if *cursor < handoffs.len() && handoffs[*cursor].0 == d {
            return Some(handoffs[*cursor].1);
        }
    }
    None
}

pub struct Sched {
    inner: Mutex<Inner>,
    cvs: Vec<Condvar>,
    main_cv: Condvar,
    n: usize,
}

thread_local! {
    static CTX: RefCell<Option<(Arc<Sched>, usize)>> = RefCell::new(None);
}

pub const NONE: usize = usize::MAX;

impl Sched {
    pub fn new(n: usize, seed: u64, policy: Policy, max_decisions: u64) -> Arc<Sched> {
        Arc::new(Sched {
            inner: Mutex::new(Inner {
                rng: Rng::new(seed),
                policy,
                running: NONE,
                alive: vec![true; n],
                started: false,
                free_run: false,
                decision: 0,
                handoffs: Vec::new(),
                stats: SchedStats {
                    site_counts: vec![0; 128],
                    ..SchedStats::default()
                },
                in_search: vec![false; n],
                max_decisions,
                budget_exhausted: false,
                forced_cursor: 0,
            }),
            cvs: (0..n).map(|_| Condvar::new()).collect(),
            main_cv: Condvar::new(),
            n,
        })
    }

    /// Called by a simulated thread first thing: park until it is given the baton.
    pub fn enter(self: &Arc<Sched>, me: usize) {
        CTX.with(|c| *c.borrow_mut() = Some((self.clone(), me)));
        let mut g = self.inner.lock().unwrap();
        while !(g.free_run || (g.started && g.running == me)) {
            g = self.cvs[me].wait(g).unwrap();
        }
    }

    /// Called by the main thread once all simulated threads are spawned.
    pub fn start(&self) {
        let mut g = self.inner.lock().unwrap();
        let first = match &g.policy {
            Policy::Forced { handoffs } => handoffs.iter().find(|(d, _)| *d == 0).map(|(_, t)| *t).unwrap_or(0),
            _ => {
                let n = self.n;
                g.rng.below(n)
            }
        };
        g.handoffs.push((0, first));
        g.decision = 1;
        g.running = first;
        g.started = true;
        self.cvs[first].notify_one();
    }

    fn choose_other(g: &mut Inner, me: usize) -> Option<usize> {
        let others: Vec<usize> = (0..g.alive.len()).filter(|t| *t != me && g.alive[*t]).collect();
        if others.is_empty() {
            None
        } else {
            let k = g.rng.below(others.len());
            Some(others[k])
        }
    }

    /// A yield point reached by thread `me` (which holds the baton).
    fn at_yield(&self, me: usize, site: u32) {
        let mut g = self.inner.lock().unwrap();
        if g.free_run {
            return;
        }
        debug_assert_eq!(g.running, me);
        let d = g.decision;
        g.decision += 1;
        g.stats.decisions += 1;
        if (site as usize) < g.stats.site_counts.len() {
            g.stats.site_counts[site as usize] += 1;
        }
        // probes
        if (3..=5).contains(&site) {
            g.in_search[me] = true;
        } else if site == SITE_OP_BOUNDARY {
            g.in_search[me] = false;
        }
        let in_flight = g.in_search.iter().filter(|x| **x).count();
        if in_flight > g.stats.max_in_flight {
            g.stats.max_in_flight = in_flight;
        }
        if in_flight >= 2 {
            g.stats.overlap_decisions += 1;
        }
        if g.decision > g.max_decisions {
            // A run far beyond any legitimate length: some simulated thread is spinning. Unwind
            // the operation in progress (its result becomes a PANIC value, which the oracle then
            // compares with the solo result) instead of hanging the check. The baton stays with
            // this thread, so the run remains a legal schedule.
            g.budget_exhausted = true;
            if site < SITE_OP_BOUNDARY {
                // only inside library code (the harness's own seams are not unwound)
                drop(g);
                std::panic::panic_any(DECISION_BUDGET_PAYLOAD);
            }
        }
        // what the policy wants: None = keep going, Some(None) = some other thread (drawn from the
        // PRNG), Some(Some(t)) = thread t (forced schedule)
        let want: Option<Option<usize>> = {
            let inner = &mut *g;
            match &inner.policy {
                Policy::Forced { .. } => forced_lookup(&inner.policy, &mut inner.forced_cursor, d).map(Some),
                Policy::Uniform { q } => {
                    if inner.rng.below((*q).max(1)) == 0 {
                        Some(None)
                    } else {
                        None
                    }
                }
                Policy::Pct { points } => {
                    if points.contains(&d) {
                        Some(None)
                    } else {
                        None
                    }
                }
                Policy::OpBoundary => {
                    if site >= 3 && inner.rng.below(2) == 0 {
                        Some(None)
                    } else {
                        None
                    }
                }
            }
        };
        let switch_to: Option<usize> = match want {
            None => None,
            Some(None) => Sched::choose_other(&mut g, me),
            Some(Some(t)) => Some(t).filter(|t| *t != me && *t < g.alive.len() && g.alive[*t]),
        };
        if let Some(t) = switch_to {
            g.handoffs.push((d, t));
            g.stats.handoffs += 1;
            g.running = t;
            self.cvs[t].notify_one();
            while !(g.free_run || g.running == me) {
                g = self.cvs[me].wait(g).unwrap();
            }
        }
    }

    /// Thread `me` is done: hand the baton on (or wake the main thread when it was the last).
    pub fn finish(&self, me: usize) {
        CTX.with(|c| *c.borrow_mut() = None);
        let mut g = self.inner.lock().unwrap();
        g.alive[me] = false;
        g.in_search[me] = false;
        if g.free_run {
            self.main_cv.notify_all();
            return;
        }
        let d = g.decision;
        g.decision += 1;
        let forced = {
            let inner = &mut *g;
            forced_lookup(&inner.policy, &mut inner.forced_cursor, d)
        };
        let next = if matches!(g.policy, Policy::Forced { .. }) {
            forced.filter(|t| *t < g.alive.len() && g.alive[*t]).or_else(|| (0..g.alive.len()).find(|t| g.alive[*t]))
        } else {
            Sched::choose_other(&mut g, me)
        };
        match next {
            Some(t) => {
                g.handoffs.push((d, t));
                g.running = t;
                self.cvs[t].notify_one();
            }
            None => {
                g.running = NONE;
            }
        }
        self.main_cv.notify_all();
    }

    /// Main thread: wait until every simulated thread finished. Returns Err("deadlock") when no
    /// thread can make progress even in free-running mode.
    pub fn wait_all(&self, stall: Duration, deadlock_after: Duration) -> Result<(), &'static str> {
        let mut g = self.inner.lock().unwrap();
        let mut last_decision = g.decision;
        let mut last_alive = g.alive.iter().filter(|a| **a).count();
        let mut stalled_for = Duration::ZERO;
        loop {
            if g.alive.iter().all(|a| !*a) {
                return Ok(());
            }
            let (ng, to) = self.main_cv.wait_timeout(g, Duration::from_millis(250)).unwrap();
            g = ng;
            let alive = g.alive.iter().filter(|a| **a).count();
            if g.decision != last_decision || alive != last_alive {
                last_decision = g.decision;
                last_alive = alive;
                stalled_for = Duration::ZERO;
                continue;
            }
            if to.timed_out() {
                stalled_for += Duration::from_millis(250);
            }
            if !g.free_run && stalled_for >= stall {
                // foreign blocking: let everybody run
                g.free_run = true;
                g.stats.free_run = true;
                stalled_for = Duration::ZERO;
                for cv in &self.cvs {
                    cv.notify_all();
                }
            } else if g.free_run && stalled_for >= deadlock_after {
                return Err("deadlock");
            }
        }
    }

    pub fn take_trace(&self) -> (Vec<(u64, usize)>, SchedStats, bool) {
        let g = self.inner.lock().unwrap();
        (g.handoffs.clone(), g.stats.clone(), g.budget_exhausted)
    }
}

/// The hook installed through `fancy_regex::verif::set_yield_hook`.
pub fn yield_hook(site: u32) {
    let ctx = CTX.with(|c| c.borrow().clone());
    if let Some((s, me)) = ctx {
        s.at_yield(me, site);
    }
}

/// Explicit yield by the harness itself (between operations).
pub fn yield_now(site: u32) {
    yield_hook(site)
}

pub fn schedule_hash(handoffs: &[(u64, usize)]) -> u64 {
    // projection onto the actual hand-offs: who ran after whom, and at which decision
    let mut h = Fnv::new();
    for (d, t) in handoffs {
        h.u64(*d);
        h.u64(*t as u64);
    }
    h.0
}
