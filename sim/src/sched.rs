// baton scheduler
