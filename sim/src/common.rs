//! Shared plumbing: result values, panic capture, the parallel batch runner, evidence and replay
//! files, known findings.

use fancy_regex::{Captures, Error, Regex, RuntimeError};
use serde_json::{json, Value};
use std::panic::{catch_unwind, AssertUnwindSafe};
use std::sync::atomic::{AtomicBool, AtomicU64, Ordering};
use std::sync::{Arc, Mutex};

/// Where evidence, replays and known findings live: the directory of the `check` script that
/// started us (a background snapshot run must not write into /verif), /verif by default.
pub fn verif_dir() -> String {
    std::env::var("FRSIM_VERIF_DIR").ok().filter(|s| !s.is_empty()).unwrap_or_else(|| "/verif".to_string())
}

#[derive(Clone, Copy, Debug, PartialEq, Eq)]
pub enum Tier {
    Quick,
    Thorough,
}

impl Tier {
    pub fn name(self) -> &'static str {
        match self {
            Tier::Quick => "quick",
            Tier::Thorough => "thorough",
        }
    }
}

#[derive(Clone, Debug)]
pub struct Opts {
    pub tier: Tier,
    pub seed: u64,
    pub workers: usize,
    /// override of the number of runs / cases (0 = tier default)
    pub budget: u64,
    /// write evidence file (false for self-tests and replays)
    pub write_evidence: bool,
}

// ------------------------------------------------------------------------------------------------
// values

/// Error kinds a search can return, as comparable values.
#[derive(Clone, Debug, PartialEq, Eq, Hash)]
pub enum ErrKind {
    BacktrackLimit,
    StackOverflow,
    Other(String),
}

pub fn err_kind(e: &Error) -> ErrKind {
    match e {
        Error::RuntimeError(RuntimeError::BacktrackLimitExceeded) => ErrKind::BacktrackLimit,
        Error::RuntimeError(RuntimeError::StackOverflow) => ErrKind::StackOverflow,
        other => ErrKind::Other(format!("{:?}", other)),
    }
}

/// Outcome of one API call as a plain value: a payload, an error kind, or a panic.
#[derive(Clone, Debug, PartialEq, Eq, Hash)]
pub enum Outcome<T> {
    Ok(T),
    Err(ErrKind),
    Panic(String),
}

impl<T: std::fmt::Debug> Outcome<T> {
    pub fn show(&self) -> String {
        match self {
            Outcome::Ok(v) => format!("{:?}", v),
            Outcome::Err(e) => format!("Err({:?})", e),
            Outcome::Panic(m) => format!("PANIC({})", m),
        }
    }
}

pub type Span = (usize, usize);
/// all groups of a match
pub type Groups = Vec<Option<Span>>;

pub fn groups_of(c: &Captures<'_>) -> Groups {
    (0..c.len())
        .map(|i| c.get(i).map(|m| (m.start(), m.end())))
        .collect()
}

pub fn panic_message(p: Box<dyn std::any::Any + Send>) -> String {
    if let Some(s) = p.downcast_ref::<&str>() {
        s.to_string()
    } else if let Some(s) = p.downcast_ref::<String>() {
        s.clone()
    } else {
        "<non-string panic>".to_string()
    }
}

/// Run `f`, turning a panic into a value.
pub fn guarded<T>(f: impl FnOnce() -> Result<T, Error>) -> Outcome<T> {
    match catch_unwind(AssertUnwindSafe(f)) {
        Ok(Ok(v)) => Outcome::Ok(v),
        Ok(Err(e)) => Outcome::Err(err_kind(&e)),
        Err(p) => Outcome::Panic(panic_message(p)),
    }
}

pub fn guarded_plain<T>(f: impl FnOnce() -> T) -> Outcome<T> {
    match catch_unwind(AssertUnwindSafe(f)) {
        Ok(v) => Outcome::Ok(v),
        Err(p) => Outcome::Panic(panic_message(p)),
    }
}

/// Compile a pattern; None when it does not compile (or compilation panics — not our business).
pub fn compile(pattern: &str) -> Option<Regex> {
    match catch_unwind(|| Regex::new(pattern)) {
        Ok(Ok(r)) => Some(r),
        _ => None,
    }
}

/// Panics are values in this simulator; keep them off stderr.
pub fn install_quiet_panic_hook() {
    std::panic::set_hook(Box::new(|_| {}));
}

// ------------------------------------------------------------------------------------------------
// violations, replay files, known findings

#[derive(Clone, Debug)]
pub struct Violation {
    pub property: String,
    /// short class name: the thing that must persist under minimisation and replay
    pub class: String,
    pub detail: String,
    /// everything needed to re-run exactly this case
    pub replay: Value,
}

impl Violation {
    pub fn new(property: &str, class: &str, detail: String, replay: Value) -> Violation {
        Violation {
            property: property.to_string(),
            class: class.to_string(),
            detail,
            replay,
        }
    }
}

/// A committed known finding: matched by property, class and a witness key.
#[derive(Clone, Debug)]
pub struct KnownFinding {
    pub property: String,
    pub key: String,
    pub what: String,
    pub status: String,
}

pub fn load_known_findings() -> Vec<KnownFinding> {
    let path = format!("{}/known_findings.json", verif_dir());
    let Ok(text) = std::fs::read_to_string(&path) else {
        return Vec::new();
    };
    let Ok(v) = serde_json::from_str::<Value>(&text) else {
        eprintln!("harness error: {} is not valid JSON", path);
        std::process::exit(2);
    };
    let mut out = Vec::new();
    if let Some(arr) = v.get("findings").and_then(|a| a.as_array()) {
        for f in arr {
            out.push(KnownFinding {
                property: f["property"].as_str().unwrap_or("").to_string(),
                key: f["key"].as_str().unwrap_or("").to_string(),
                what: f["what"].as_str().unwrap_or("").to_string(),
                status: f["status"].as_str().unwrap_or("open").to_string(),
            });
        }
    }
    out
}

/// True when `key` is listed as an *open* finding for `property` (fixed entries suppress nothing).
pub fn is_known(known: &[KnownFinding], property: &str, key: &str) -> Option<KnownFinding> {
    known
        .iter()
        .find(|k| k.property == property && k.key == key && k.status == "open")
        .cloned()
}

pub fn write_replay(v: &Violation, seed: u64) -> String {
    let dir = format!("{}/replays", verif_dir());
    let _ = std::fs::create_dir_all(&dir);
    let path = format!("{}/{}-{}-{}.json", dir, v.property, v.class, seed);
    let body = json!({
        "property": v.property,
        "class": v.class,
        "detail": v.detail,
        "seed": seed,
        "case": v.replay,
    });
    if let Err(e) = std::fs::write(&path, serde_json::to_string_pretty(&body).unwrap()) {
        eprintln!("harness error: cannot write {}: {}", path, e);
        std::process::exit(2);
    }
    path
}

/// Print the VIOLATION line the interface asks for.
pub fn report_violation(v: &Violation, path: &str) {
    println!("violation class={} detail={}", v.class, v.detail);
    println!("VIOLATION property={} replay={}", v.property, path);
}

// ------------------------------------------------------------------------------------------------
// evidence

pub struct Evidence {
    pub property: String,
    pub tier: Tier,
    pub seed: u64,
    pub level: &'static str,
    pub evaluations: u64,
    pub distinct_nontrivial: u64,
    pub rule: String,
    pub samples: Vec<Value>,
    pub extra: serde_json::Map<String, Value>,
    pub assumptions: Vec<String>,
    pub wall_s: f64,
    pub violations: u64,
}

impl Evidence {
    pub fn write(&self) {
        let mut coverage = serde_json::Map::new();
        coverage.insert("evaluations".into(), json!(self.evaluations));
        coverage.insert("distinct_nontrivial".into(), json!(self.distinct_nontrivial));
        coverage.insert(
            "rule".into(),
            json!(format!("{} [distinct cases are counted with a 2^30-bit bitmap over their 64-bit hashes: a collision can only lower the count]", self.rule)),
        );
        coverage.insert("samples".into(), json!(self.samples));
        coverage.insert("exhaustive".into(), json!(false));
        for (k, v) in &self.extra {
            coverage.insert(k.clone(), v.clone());
        }
        let body = json!({
            "property_id": self.property,
            "tier": self.tier.name(),
            "seed": self.seed,
            "level": self.level,
            "coverage": Value::Object(coverage),
            "assumptions": self.assumptions,
            "wall_s": self.wall_s,
            "violations": self.violations,
        });
        let dir = format!("{}/evidence", verif_dir());
        let _ = std::fs::create_dir_all(&dir);
        let path = format!("{}/{}.json", dir, self.property);
        let tmp = format!("{}.tmp", path);
        if std::fs::write(&tmp, serde_json::to_string_pretty(&body).unwrap()).is_err()
            || std::fs::rename(&tmp, &path).is_err()
        {
            eprintln!("harness error: cannot write {}", path);
            std::process::exit(2);
        }
    }
}

// ------------------------------------------------------------------------------------------------
// deterministic parallel batch runner

/// Runs `job(i)` for i in 0..n on `workers` OS threads. Each job is an independent simulation
/// whose outcome depends only on `i` (and the code); results are folded in index order, so the
/// aggregate is independent of the worker count. Stops early once a job reports a violation
/// (jobs with a lower index still finish, so the *lowest* failing index is the one reported).
pub fn run_batch<R: Send + 'static>(
    n: u64,
    workers: usize,
    job: impl Fn(u64) -> (R, Option<Violation>) + Send + Sync + 'static,
) -> (Vec<(u64, R)>, Option<(u64, Violation)>) {
    let next = Arc::new(AtomicU64::new(0));
    let stop_at = Arc::new(AtomicU64::new(u64::MAX));
    let results: Arc<Mutex<Vec<(u64, R)>>> = Arc::new(Mutex::new(Vec::new()));
    let viol: Arc<Mutex<Option<(u64, Violation)>>> = Arc::new(Mutex::new(None));
    let harness_failed = Arc::new(AtomicBool::new(false));
    let job = Arc::new(job);
    let mut handles = Vec::new();
    for _ in 0..workers.max(1) {
        let next = next.clone();
        let stop_at = stop_at.clone();
        let results = results.clone();
        let viol = viol.clone();
        let job = job.clone();
        let harness_failed = harness_failed.clone();
        handles.push(
            std::thread::Builder::new()
                .stack_size(64 << 20)
                .spawn(move || loop {
                    let i = next.fetch_add(1, Ordering::SeqCst);
                    if i >= n || i > stop_at.load(Ordering::SeqCst) {
                        break;
                    }
                    let r = catch_unwind(AssertUnwindSafe(|| job(i)));
                    match r {
                        Ok((r, v)) => {
                            if let Some(v) = v {
                                let mut g = viol.lock().unwrap();
                                stop_at.fetch_min(i, Ordering::SeqCst);
                                match &*g {
                                    Some((j, _)) if *j < i => {}
                                    _ => *g = Some((i, v)),
                                }
                            }
                            results.lock().unwrap().push((i, r));
                        }
                        Err(p) => {
                            eprintln!(
                                "harness error: job {} panicked outside a guarded region: {}",
                                i,
                                panic_message(p)
                            );
                            harness_failed.store(true, Ordering::SeqCst);
                            stop_at.fetch_min(0, Ordering::SeqCst);
                            break;
                        }
                    }
                })
                .expect("spawn worker"),
        );
    }
    for h in handles {
        let _ = h.join();
    }
    if harness_failed.load(Ordering::SeqCst) {
        std::process::exit(2);
    }
    let mut res = std::mem::take(&mut *results.lock().unwrap());
    res.sort_by_key(|(i, _)| *i);
    let v = viol.lock().unwrap().take();
    if let Some((vi, _)) = &v {
        // keep the aggregate independent of scheduling: only results up to the failing index count
        res.retain(|(i, _)| *i <= *vi);
    }
    (res, v)
}

// ------------------------------------------------------------------------------------------------
// step budgets: turn a spinning search / iterator into a value instead of a hung check

/// Per-thread budgets enforced from the library's yield points (H1). A budget that runs out
/// unwinds the call in progress with a recognisable payload; callers see it as `Outcome::Panic`
/// with that message. Budgets are logical (VM instructions, search calls) — never wall-clock — so
/// they trip at the same point in every execution.
pub mod budget {
    use fancy_regex::verif::{self, site};
    use std::cell::Cell;

    pub const INSN_PAYLOAD: &str = "frsim-budget-vm-instructions";
    pub const SEARCH_PAYLOAD: &str = "frsim-budget-search-calls";
    /// default per-call instruction budget: far above anything a search on the small workloads
    /// needs even when it legitimately runs into the default backtrack limit
    pub const DEFAULT_INSNS: u64 = 400_000_000;

    thread_local! {
        static INSNS: Cell<u64> = Cell::new(u64::MAX);
        static SEARCHES: Cell<u64> = Cell::new(u64::MAX);
    }

    fn hook(s: u32) {
        if s == site::VM_INSN {
            let left = INSNS.with(|c| {
                let v = c.get().saturating_sub(1);
                c.set(v);
                v
            });
            if left == 0 {
                INSNS.with(|c| c.set(u64::MAX));
                std::panic::panic_any(INSN_PAYLOAD);
            }
        } else if s == site::API_IS_MATCH || s == site::API_FIND || s == site::API_CAPTURES {
            let left = SEARCHES.with(|c| {
                let v = c.get().saturating_sub(1);
                c.set(v);
                v
            });
            if left == 0 {
                SEARCHES.with(|c| c.set(u64::MAX));
                std::panic::panic_any(SEARCH_PAYLOAD);
            }
        }
    }

    /// Install the budget hook on the calling thread (idempotent) with unlimited budgets.
    pub fn install() {
        verif::set_yield_hook(Some(hook));
        disarm();
    }

    /// Arm: the next `insns` VM instructions / `searches` search-API calls are allowed.
    pub fn arm(insns: u64, searches: u64) {
        INSNS.with(|c| c.set(insns.saturating_add(1)));
        SEARCHES.with(|c| c.set(searches.saturating_add(1)));
    }

    pub fn disarm() {
        INSNS.with(|c| c.set(u64::MAX));
        SEARCHES.with(|c| c.set(u64::MAX));
    }

    pub fn is_budget_panic(msg: &str) -> bool {
        msg == INSN_PAYLOAD || msg == SEARCH_PAYLOAD
    }
}

/// The same, in chunks, folding each job's result as soon as its chunk is done instead of keeping
/// millions of results in memory. `fold` sees results in index order within a chunk and chunks in
/// order, so the aggregate is still independent of the worker count. Stops after the first chunk
/// that contains a violation (the lowest failing index of that chunk is reported).
pub fn run_batch_chunked<R: Send + 'static>(
    n: u64,
    workers: usize,
    job: impl Fn(u64) -> (R, Option<Violation>) + Send + Sync + 'static,
    mut fold: impl FnMut(u64, R),
) -> (u64, Option<(u64, Violation)>) {
    const CHUNK: u64 = 32_768;
    let job = Arc::new(job);
    let mut done = 0u64;
    let mut off = 0u64;
    while off < n {
        let len = CHUNK.min(n - off);
        let j = job.clone();
        let (res, v) = run_batch(len, workers, move |i| j(off + i));
        for (i, r) in res {
            fold(off + i, r);
            done += 1;
        }
        if let Some((i, v)) = v {
            return (done, Some((off + i, v)));
        }
        off += len;
    }
    (done, None)
}

/// Conservative distinct counter: a 2^30-bit bitmap indexed by the low bits of a 64-bit hash.
/// Two different cases that collide are counted once, so the count never exceeds the true number
/// of distinct cases; memory stays at 128 MB however long the run is.
pub struct Distinct {
    bits: Vec<u64>,
}

impl Distinct {
    pub fn new() -> Distinct {
        Distinct { bits: vec![0u64; 1 << 24] }
    }
    pub fn insert(&mut self, h: u64) {
        let b = (h ^ (h >> 30)) & ((1 << 30) - 1);
        self.bits[(b >> 6) as usize] |= 1 << (b & 63);
    }
    pub fn extend<'a>(&mut self, it: impl Iterator<Item = &'a u64>) {
        for h in it {
            self.insert(*h);
        }
    }
    pub fn len(&self) -> usize {
        self.bits.iter().map(|w| w.count_ones() as usize).sum()
    }
}

pub fn now() -> std::time::Instant {
    std::time::Instant::now()
}
