//! C11 — replacement rewrites exactly the first n matches and nothing else.
//!
//! System under simulation: `try_replacen` (both loops) and its panicking wrappers, over the real
//! iterators and search layer, with a limit fault injected into a chosen search of the call.
//! Oracle: an executable replace model built from the fault-free match sequence.

use crate::c08::{self, IterFault, Item};
use crate::c20::minimise_ast;
use crate::common::*;
use crate::gen::{self, GenCfg, Node};
use crate::rng::{derive, Fnv, Rng};
use fancy_regex::verif::{self, EndReason, RunStats};
use fancy_regex::{Captures, NoExpand, Regex, Replacer};
use serde_json::{json, Value};
use std::borrow::Cow;
use std::collections::HashSet;

pub const PROP: &str = "C11";

/// Replacer kinds. `Tpl*` are templates built only from well-formed tokens the model can expand.
#[derive(Clone, Debug, PartialEq, Eq)]
pub enum Rep {
    /// closure returning the whole match
    Identity,
    /// closure returning a constant
    ConstClosure(String),
    /// stateful closure: `<k:match>` where k counts its own invocations from 0 — the k-th replaced
    /// match must carry k, i.e. the replacer is invoked exactly once per replaced match, in order,
    /// and never for a match that is not replaced
    Counting,
    /// NoExpand(s)
    NoExpand(String),
    /// &str without `$`
    Str(String),
    /// String without `$`
    OwnedString(String),
    /// Cow<str> without `$`
    CowStr(String),
    /// template: list of tokens
    Template(Vec<Tok>),
}

#[derive(Clone, Debug, PartialEq, Eq)]
pub enum Tok {
    Lit(String),
    Dollar,
    Group(usize),
    Name(String, usize),
    /// `$N` without braces (only generated where the next template character cannot extend the name)
    GroupBare(usize),
    /// `$name` without braces (same restriction)
    NameBare(String, usize),
}

impl Rep {
    fn to_json(&self) -> Value {
        match self {
            Rep::Identity => json!(["identity"]),
            Rep::Counting => json!(["counting"]),
            Rep::ConstClosure(s) => json!(["const", s]),
            Rep::NoExpand(s) => json!(["noexpand", s]),
            Rep::Str(s) => json!(["str", s]),
            Rep::OwnedString(s) => json!(["string", s]),
            Rep::CowStr(s) => json!(["cow", s]),
            Rep::Template(t) => json!([
                "template",
                t.iter()
                    .map(|t| match t {
                        Tok::Lit(s) => json!(["lit", s]),
                        Tok::Dollar => json!(["dollar"]),
                        Tok::Group(n) => json!(["group", n]),
                        Tok::Name(s, n) => json!(["name", s, n]),
                        Tok::GroupBare(n) => json!(["group_bare", n]),
                        Tok::NameBare(s, n) => json!(["name_bare", s, n]),
                    })
                    .collect::<Vec<_>>()
            ]),
        }
    }
    fn from_json(v: &Value) -> Option<Rep> {
        let a = v.as_array()?;
        let s = |i: usize| a.get(i).and_then(|x| x.as_str()).map(|x| x.to_string());
        Some(match a.first()?.as_str()? {
            "identity" => Rep::Identity,
            "counting" => Rep::Counting,
            "const" => Rep::ConstClosure(s(1)?),
            "noexpand" => Rep::NoExpand(s(1)?),
            "str" => Rep::Str(s(1)?),
            "string" => Rep::OwnedString(s(1)?),
            "cow" => Rep::CowStr(s(1)?),
            "template" => Rep::Template(
                a.get(1)?
                    .as_array()?
                    .iter()
                    .map(|t| {
                        let t = t.as_array()?;
                        Some(match t.first()?.as_str()? {
                            "lit" => Tok::Lit(t.get(1)?.as_str()?.to_string()),
                            "dollar" => Tok::Dollar,
                            "group" => Tok::Group(t.get(1)?.as_u64()? as usize),
                            "name" => Tok::Name(t.get(1)?.as_str()?.to_string(), t.get(2)?.as_u64()? as usize),
                            "group_bare" => Tok::GroupBare(t.get(1)?.as_u64()? as usize),
                            "name_bare" => Tok::NameBare(t.get(1)?.as_str()?.to_string(), t.get(2)?.as_u64()? as usize),
                            _ => return None,
                        })
                    })
                    .collect::<Option<Vec<_>>>()?,
            ),
            _ => return None,
        })
    }

    fn template_string(toks: &[Tok]) -> String {
        let mut s = String::new();
        for t in toks {
            match t {
                Tok::Lit(l) => s.push_str(l),
                Tok::Dollar => s.push_str("$$"),
                Tok::Group(n) => s.push_str(&format!("${{{}}}", n)),
                Tok::Name(n, _) => s.push_str(&format!("${{{}}}", n)),
                Tok::GroupBare(n) => s.push_str(&format!("${}", n)),
                Tok::NameBare(n, _) => s.push_str(&format!("${}", n)),
            }
        }
        s
    }

    /// true when try_replacen takes the find_iter fast path for this replacer
    fn fast_path(&self) -> bool {
        match self {
            Rep::Identity | Rep::ConstClosure(_) | Rep::Counting => false,
            Rep::NoExpand(_) | Rep::Str(_) | Rep::OwnedString(_) | Rep::CowStr(_) => true,
            Rep::Template(t) => !Rep::template_string(t).contains('$'),
        }
    }

    /// The model's idea of the replacer's output for one match.
    fn expand(&self, text: &str, groups: &Groups, names: &[(String, usize)], k: usize) -> String {
        let grp = |n: usize| -> &str {
            match groups.get(n) {
                Some(Some((s, e))) => &text[*s..*e],
                _ => "",
            }
        };
        // a reference is a group *name* if the regex has a group of that name, otherwise a group
        // number if it parses as one, otherwise nothing (resolved against the regex at hand, so
        // that shrunk cases stay meaningful)
        let by_ref = |r: &str| -> &str {
            if let Some((_, i)) = names.iter().find(|(n, _)| n == r) {
                grp(*i)
            } else if let Ok(k) = r.parse::<usize>() {
                grp(k)
            } else {
                ""
            }
        };
        match self {
            Rep::Identity => grp(0).to_string(),
            Rep::Counting => format!("<{}:{}>", k, grp(0)),
            Rep::ConstClosure(s) | Rep::NoExpand(s) | Rep::Str(s) | Rep::OwnedString(s) | Rep::CowStr(s) => s.clone(),
            Rep::Template(toks) => {
                let mut out = String::new();
                for t in toks {
                    match t {
                        Tok::Lit(l) => out.push_str(l),
                        Tok::Dollar => out.push('$'),
                        Tok::Group(n) | Tok::GroupBare(n) => out.push_str(by_ref(&n.to_string())),
                        Tok::Name(name, _) | Tok::NameBare(name, _) => out.push_str(by_ref(name)),
                    }
                }
                out
            }
        }
    }
}

#[derive(Clone, Copy, Debug, PartialEq, Eq)]
pub enum Entry {
    TryReplacen,
    Replacen,
    Replace,
    ReplaceAll,
}

impl Entry {
    fn name(self) -> &'static str {
        match self {
            Entry::TryReplacen => "try_replacen",
            Entry::Replacen => "replacen",
            Entry::Replace => "replace",
            Entry::ReplaceAll => "replace_all",
        }
    }
    fn parse(s: &str) -> Option<Entry> {
        Some(match s {
            "try_replacen" => Entry::TryReplacen,
            "replacen" => Entry::Replacen,
            "replace" => Entry::Replace,
            "replace_all" => Entry::ReplaceAll,
            _ => return None,
        })
    }
}

/// (output, borrowed-from-input?)
type RepOut = (String, bool);

fn is_borrowed_of(c: &Cow<'_, str>, text: &str) -> bool {
    match c {
        Cow::Borrowed(b) => b.as_ptr() == text.as_ptr() && b.len() == text.len(),
        Cow::Owned(_) => false,
    }
}

fn call_real(re: &Regex, text: &str, n: usize, rep: &Rep, entry: Entry) -> Outcome<RepOut> {
    // a correct replace makes at most two searches per match plus one; anything far beyond that is
    // a spinning loop, turned into a value by the budget hook instead of hanging the check
    budget::install();
    budget::arm(budget::DEFAULT_INSNS, 2 * (text.chars().count() as u64 + 3) + 6);
    let r = call_real_inner(re, text, n, rep, entry);
    budget::disarm();
    r
}

fn call_real_inner(re: &Regex, text: &str, n: usize, rep: &Rep, entry: Entry) -> Outcome<RepOut> {
    macro_rules! go {
        ($r:expr) => {
            match entry {
                Entry::TryReplacen => guarded(|| re.try_replacen(text, n, $r).map(|c| (c.to_string(), is_borrowed_of(&c, text)))),
                Entry::Replacen => guarded_plain(|| {
                    let c = re.replacen(text, n, $r);
                    (c.to_string(), is_borrowed_of(&c, text))
                }),
                Entry::Replace => guarded_plain(|| {
                    let c = re.replace(text, $r);
                    (c.to_string(), is_borrowed_of(&c, text))
                }),
                Entry::ReplaceAll => guarded_plain(|| {
                    let c = re.replace_all(text, $r);
                    (c.to_string(), is_borrowed_of(&c, text))
                }),
            }
        };
    }
    match rep {
        Rep::Identity => go!(|c: &Captures<'_>| c.get(0).map(|m| m.as_str().to_string()).unwrap_or_default()),
        Rep::Counting => {
            let calls = std::cell::Cell::new(0usize);
            go!(|c: &Captures<'_>| {
                let k = calls.get();
                calls.set(k + 1);
                format!("<{}:{}>", k, c.get(0).map(|m| m.as_str()).unwrap_or(""))
            })
        }
        Rep::ConstClosure(s) => go!(|_: &Captures<'_>| s.clone()),
        Rep::NoExpand(s) => go!(NoExpand(s.as_str())),
        Rep::Str(s) => carried(re, text, n, entry, s),
        Rep::OwnedString(s) => go!(s.clone()),
        Rep::CowStr(s) => go!(Cow::<str>::Owned(s.clone())),
        Rep::Template(t) => {
            let tpl = Rep::template_string(t);
            carried(re, text, n, entry, &tpl)
        }
    }
}

/// A string replacement handed over in one of the types that implement Replacer (&str, String,
/// &String, Cow<str> borrowed, &Cow<str>); which one is a function of the string itself, so a
/// replay uses the same carrier.
fn carried(re: &Regex, text: &str, n: usize, entry: Entry, s: &str) -> Outcome<RepOut> {
    macro_rules! go {
        ($r:expr) => {
            match entry {
                Entry::TryReplacen => guarded(|| re.try_replacen(text, n, $r).map(|c| (c.to_string(), is_borrowed_of(&c, text)))),
                Entry::Replacen => guarded_plain(|| {
                    let c = re.replacen(text, n, $r);
                    (c.to_string(), is_borrowed_of(&c, text))
                }),
                Entry::Replace => guarded_plain(|| {
                    let c = re.replace(text, $r);
                    (c.to_string(), is_borrowed_of(&c, text))
                }),
                Entry::ReplaceAll => guarded_plain(|| {
                    let c = re.replace_all(text, $r);
                    (c.to_string(), is_borrowed_of(&c, text))
                }),
            }
        };
    }
    let mut h = Fnv::new();
    h.str(s);
    h.str(text);
    let owned = s.to_string();
    let cow: Cow<'_, str> = Cow::Borrowed(s);
    match h.0 % 5 {
        0 => go!(s),
        1 => go!(owned.clone()),
        2 => go!(&owned),
        3 => go!(cow.clone()),
        _ => go!(&cow),
    }
}

/// Fault-free match sequence with all groups (from captures_iter) and spans (from find_iter).
pub struct Matches {
    pub find: Vec<Item>,
    pub caps: Vec<Outcome<Groups>>,
    /// the regex's named groups (name, index)
    pub names: Vec<(String, usize)>,
}

fn fault_free_matches(re: &Regex, text: &str) -> Matches {
    let find = c08::real_history(re, text, &None).items;
    let cap = text.chars().count() + 3;
    let mut caps = Vec::new();
    let mut it = re.captures_iter(text);
    budget::install();
    while caps.len() < cap {
        budget::arm(budget::DEFAULT_INSNS, 4);
        match guarded_plain(|| it.next()) {
            Outcome::Ok(None) => break,
            Outcome::Ok(Some(Ok(c))) => caps.push(Outcome::Ok(groups_of(&c))),
            Outcome::Ok(Some(Err(e))) => {
                caps.push(Outcome::Err(err_kind(&e)));
                break;
            }
            Outcome::Panic(p) => {
                caps.push(Outcome::Panic(p));
                break;
            }
            Outcome::Err(_) => unreachable!(),
        }
    }
    budget::disarm();
    let names = re.capture_names().enumerate().filter_map(|(i, n)| n.map(|n| (n.to_string(), i))).collect();
    Matches { find, caps, names }
}

/// The statement, executable: gaps verbatim, first n matches (all if n = 0) replaced, tail verbatim;
/// borrowed iff there is no match. None when the fault-free sequence itself errs or panics within
/// the part try_replacen looks at (then only Err-vs-panic expectations apply).
fn model(text: &str, m: &Matches, n: usize, rep: &Rep) -> Option<Outcome<RepOut>> {
    // which prefix of the sequence does the call consume? items 0..=n (n > 0) or all (n = 0)
    let spans: Vec<&Item> = m.find.iter().collect();
    let consumed = if n == 0 { spans.len() } else { spans.len().min(n.saturating_add(1)) };
    for it in &spans[..consumed] {
        match it {
            Item::Err(k) => return Some(Outcome::Err(k.clone())),
            Item::Panic(_) => return None,
            _ => {}
        }
    }
    if spans.is_empty() {
        return Some(Outcome::Ok((text.to_string(), true)));
    }
    let replaced = if n == 0 { spans.len() } else { spans.len().min(n) };
    let mut out = String::new();
    let mut last = 0;
    for (i, it) in spans[..replaced].iter().enumerate() {
        let Item::Match(s, e) = it else { return None };
        let groups: Groups = match m.caps.get(i) {
            Some(Outcome::Ok(g)) => g.clone(),
            _ => {
                if rep.fast_path() {
                    vec![Some((*s, *e))]
                } else {
                    return None;
                }
            }
        };
        out.push_str(text.get(last..*s)?);
        // the statement replaces the find_iter matches; the replacer sees "the corresponding
        // captures", whose group 0 is that match
        let mut g = groups;
        if g.is_empty() {
            g.push(Some((*s, *e)));
        }
        g[0] = Some((*s, *e));
        out.push_str(&rep.expand(text, &g, &m.names, i));
        last = *e;
    }
    out.push_str(text.get(last..)?);
    Some(Outcome::Ok((out, false)))
}

#[derive(Clone, Debug)]
pub struct Case {
    pub pattern: String,
    pub text: String,
    pub n: usize,
    pub rep: Rep,
    pub entry: Entry,
    pub fault: Option<IterFault>,
    /// the regex is built through RegexBuilder::case_insensitive(true)
    pub ci: bool,
}

/// Regex::new, or the builder with its case-insensitive option
fn compile_opt(pattern: &str, ci: bool) -> Option<Regex> {
    if !ci {
        return compile(pattern);
    }
    std::panic::catch_unwind(|| fancy_regex::RegexBuilder::new(pattern).case_insensitive(true).build()).ok().and_then(|r| r.ok())
}

impl Case {
    fn to_json(&self) -> Value {
        json!({
            "kind": "c11",
            "pattern": self.pattern,
            "text": self.text,
            "n": self.n,
            "rep": self.rep.to_json(),
            "entry": self.entry.name(),
            "fault": self.fault.as_ref().map(|f| json!([f.j, f.kind, f.val])),
            "ci": self.ci,
        })
    }
    fn from_json(v: &Value) -> Option<Case> {
        Some(Case {
            pattern: v["pattern"].as_str()?.to_string(),
            text: v["text"].as_str()?.to_string(),
            n: v["n"].as_u64()? as usize,
            rep: Rep::from_json(&v["rep"])?,
            entry: Entry::parse(v["entry"].as_str()?)?,
            fault: match &v["fault"] {
                Value::Array(a) => Some(IterFault { j: a[0].as_u64()?, kind: a[1].as_str()?.to_string(), val: a[2].as_u64()? as usize }),
                _ => None,
            },
            ci: v["ci"].as_bool().unwrap_or(false),
        })
    }
}

#[derive(Default, Clone, Debug)]
pub struct Stats {
    pub calls: u64,
    pub model_compared: u64,
    pub borrowed_results: u64,
    pub owned_results: u64,
    pub faults_configured: u64,
    pub faults_fired: u64,
    pub fault_on_replaced_match: u64,
    pub fault_on_lookahead_match: u64,
    pub equivalence_groups: u64,
    pub wrappers_compared: u64,
    pub vm_insns: u64,
    pub budget_skipped: u64,
    pub reuse_checks: u64,
    pub equivalence_groups_faulted: u64,
    pub long_texts: u64,
    pub error_search_not_made: u64,
    pub sequences: u64,
    pub digest: u64,
}

pub struct Found {
    pub class: String,
    pub detail: String,
}

struct Observed {
    out: Outcome<RepOut>,
    runs: Vec<RunStats>,
}

fn observe(re: &Regex, case: &Case) -> Observed {
    verif::reset_run_ordinal();
    verif::set_fault_plan(c08::plan_of(&case.fault));
    verif::record_run_stats(true);
    let out = call_real(re, &case.text, case.n, &case.rep, case.entry);
    verif::set_fault_plan(Vec::new());
    let runs = verif::take_run_stats();
    verif::record_run_stats(false);
    Observed { out, runs }
}

fn effective_n(case: &Case) -> usize {
    match case.entry {
        Entry::Replace => 1,
        Entry::ReplaceAll => 0,
        _ => case.n,
    }
}

/// Check one call (fault-free or faulted) against the model.
pub fn check_case(re: &Regex, case: &Case, m: &Matches, st: &mut Stats) -> Option<Found> {
    let n = effective_n(case);
    let o = observe(re, case);
    st.calls += 1;
    for r in &o.runs {
        st.vm_insns += r.insns;
    }
    let mut d = Fnv(st.digest ^ 0x99);
    d.str(&o.out.show());
    st.digest = d.0;
    if let Outcome::Panic(msg) = &o.out {
        if msg == budget::INSN_PAYLOAD {
            st.budget_skipped += 1;
            return None;
        }
        if msg == budget::SEARCH_PAYLOAD {
            return Some(Found {
                class: "replace-does-not-terminate".into(),
                detail: format!("{}({:?}, n={}) made more than {} searches without returning", case.entry.name(), case.text, n, 2 * (case.text.chars().count() + 3) + 6),
            });
        }
    }
    let expect = model(&case.text, m, n, &case.rep);
    let fired = case.fault.as_ref().map_or(false, |f| {
        o.runs.iter().any(|r| r.ordinal == f.j && matches!(r.end, EndReason::BacktrackLimit | EndReason::StackOverflow))
    });
    if let Some(f) = &case.fault {
        st.faults_configured += 1;
        if fired {
            st.faults_fired += 1;
            if n > 0 && f.j >= n as u64 {
                st.fault_on_lookahead_match += 1;
            } else {
                st.fault_on_replaced_match += 1;
            }
            let kind = if f.kind == "ble" { ErrKind::BacktrackLimit } else { ErrKind::StackOverflow };
            return match (&o.out, case.entry) {
                (Outcome::Err(k), Entry::TryReplacen) if *k == kind => None,
                // the panicking wrappers document that they panic on a search error
                (Outcome::Panic(_), e) if e != Entry::TryReplacen => None,
                (other, _) => Some(Found {
                    class: if matches!(other, Outcome::Panic(_)) { "search-error-panics".into() } else { "search-error-swallowed".into() },
                    detail: format!("search #{} of {}(n={}) aborted with {:?} but the call returned {}", f.j, case.entry.name(), n, kind, other.show()),
                }),
            };
        }
    }
    let Some(expect) = expect else { return None };
    // The model's sequence ends in a limit error that the (fault-free) search layer raises by
    // itself, but the call made no search that ended in one and returned Ok: it never made the
    // erroring search (e.g. it can tell from the pattern that the rest of the text is too short
    // for a match). The statement asks that a search error be *returned as Err rather than a
    // panic*; it does not ask that every search of the reference iteration be performed. Not
    // judged here (a wrong "no further match" shows on the cases whose searches do not error).
    if matches!(expect, Outcome::Err(_)) && matches!(o.out, Outcome::Ok(_)) && !o.runs.iter().any(|r| matches!(r.end, EndReason::BacktrackLimit | EndReason::StackOverflow)) {
        st.error_search_not_made += 1;
        return None;
    }
    st.model_compared += 1;
    match (&o.out, &expect) {
        (Outcome::Ok((s, b)), Outcome::Ok((es, eb))) => {
            if *b {
                st.borrowed_results += 1
            } else {
                st.owned_results += 1
            }
            if s != es {
                return Some(Found {
                    class: "replace-differs-from-model".into(),
                    detail: format!("{}({:?}, n={}, {:?}) returned {:?} ; model (find_iter matches {:?} replaced, rest verbatim) gives {:?}", case.entry.name(), case.text, n, case.rep, s, m.find, es),
                });
            }
            if b != eb {
                return Some(Found {
                    class: "borrow-rule-broken".into(),
                    detail: format!("{}({:?}, n={}) returned a {} result; it must borrow the input iff there is no match (matches: {:?})", case.entry.name(), case.text, n, if *b { "borrowed" } else { "owned" }, m.find),
                });
            }
            None
        }
        (Outcome::Err(k), Outcome::Err(ek)) if k == ek => None,
        (Outcome::Panic(_), Outcome::Err(_)) if case.entry != Entry::TryReplacen => None,
        (a, b) => Some(Found {
            class: if matches!(a, Outcome::Panic(_)) { "search-error-panics".into() } else { "replace-differs-from-model".into() },
            detail: format!("{}({:?}, n={}, {:?}) returned {} ; model gives {}", case.entry.name(), case.text, n, case.rep, a.show(), b.show()),
        }),
    }
}

fn class_of(case: &Case) -> Option<(String, String)> {
    let re = compile_opt(&case.pattern, case.ci)?;
    let m = fault_free_matches(&re, &case.text);
    let mut st = Stats::default();
    check_case(&re, case, &m, &mut st).map(|f| (f.class, f.detail))
}

/// The same replacer text used with two regexes of one shape, one after the other on one thread:
/// A, then B (= A behind one more optional group, so every group of A — the named ones too — has
/// another number in B), then A again. "For every pattern ... and replacer" includes a replacer
/// whose text has just been used with another pattern: every call is judged against the model of
/// its own regex. (Each call alone is what `check_case` checks; here only the order matters.)
pub fn sibling_of(pattern: &str) -> String {
    format!("(é)?(?:{})", pattern)
}

fn sequence(patterns: &[String], ci: bool, base: &Case, st: &mut Stats) -> Option<(Found, usize)> {
    for (k, p) in patterns.iter().enumerate() {
        let re = compile_opt(p, ci)?;
        let m = fault_free_matches(&re, &base.text);
        if m.find.iter().any(|i| matches!(i, Item::Panic(_))) || m.caps.iter().any(|c| matches!(c, Outcome::Panic(_))) {
            return None;
        }
        let mut c = base.clone();
        c.pattern = p.clone();
        c.fault = None;
        if let Some(f) = check_case(&re, &c, &m, st) {
            return Some((f, k));
        }
    }
    None
}

fn replay_sequence(case: &Value) -> Option<(String, String)> {
    let patterns: Vec<String> = case["patterns"].as_array()?.iter().filter_map(|p| p.as_str().map(|s| s.to_string())).collect();
    let base = Case::from_json(&case["base"])?;
    let mut st = Stats::default();
    sequence(&patterns, base.ci, &base, &mut st).map(|(f, k)| (f.class, format!("call #{} of the sequence (on /{}/): {}", k + 1, patterns[k], f.detail)))
}

pub fn replay(case: &Value) -> Option<(String, String)> {
    if case["kind"].as_str() == Some("c11-sequence") {
        return replay_sequence(case);
    }
    if case["kind"].as_str() == Some("c11-equivalence") {
        return replay_equivalence(case);
    }
    if case["kind"].as_str() == Some("c11-reuse") {
        return replay_reuse(case);
    }
    class_of(&Case::from_json(case)?)
}

fn minimise(case: &Case, ast: Option<&Node>, class: &str) -> Case {
    let mut cur = case.clone();
    let same = |c: &Case| class_of(c).map_or(false, |(k, _)| k == class);
    if cur.fault.is_some() {
        let mut c = cur.clone();
        c.fault = None;
        if same(&c) {
            cur = c;
        }
    }
    loop {
        let mut progressed = false;
        for t in gen::text_shrinks(&cur.text) {
            let mut c = cur.clone();
            c.text = t;
            if same(&c) {
                cur = c;
                progressed = true;
                break;
            }
        }
        if !progressed {
            break;
        }
    }
    if let Some(ast) = ast {
        let base = cur.clone();
        let small = minimise_ast(ast, &|p: &str| {
            let mut c = base.clone();
            c.pattern = p.to_string();
            same(&c)
        });
        let mut c = cur.clone();
        c.pattern = small.render();
        if same(&c) {
            cur = c;
        }
    }
    cur
}

/// "a template without `$`, NoExpand of the same string and a closure returning it give identical
/// results" — and so the fast and the slow path agree.
fn equivalence(re: &Regex, text: &str, n: usize, s: &str) -> Option<Found> {
    equivalence_under(re, text, n, s, &None)
}

/// The same under a limit fault on search #j of each call: the fast and the slow path make the
/// same searches in the same order, so the same search aborts in both and all five replacer kinds
/// must still agree (all `Err`, or all the same text).
fn equivalence_under(re: &Regex, text: &str, n: usize, s: &str, fault: &Option<IterFault>) -> Option<Found> {
    let reps = [
        Rep::Str(s.to_string()),
        Rep::OwnedString(s.to_string()),
        Rep::CowStr(s.to_string()),
        Rep::NoExpand(s.to_string()),
        Rep::ConstClosure(s.to_string()),
    ];
    let outs: Vec<Outcome<RepOut>> = reps
        .iter()
        .map(|r| {
            verif::reset_run_ordinal();
            verif::set_fault_plan(c08::plan_of(fault));
            let o = call_real(re, text, n, r, Entry::TryReplacen);
            verif::set_fault_plan(Vec::new());
            o
        })
        .collect();
    if outs.iter().any(|o| matches!(o, Outcome::Panic(m) if m == budget::INSN_PAYLOAD)) {
        return None;
    }
    for i in 1..outs.len() {
        if outs[i] != outs[0] {
            return Some(Found {
                class: "replacer-kinds-disagree".into(),
                detail: format!(
                    "try_replacen({:?}, n={}){} with {:?} returned {} but with {:?} returned {}",
                    text, n,
                    fault.as_ref().map(|f| format!(" with search #{} of the call aborted ({} {})", f.j, f.kind, f.val)).unwrap_or_default(),
                    reps[0], outs[0].show(), reps[i], outs[i].show()
                ),
            });
        }
    }
    None
}

/// One replacer *object* used for two successive calls through `by_ref()`: "for every ... replacer"
/// includes a replacer that has been used before. Every call must equal the model.
fn reuse(re: &Regex, text: &str, n: usize, rep: &Rep, m: &Matches) -> Option<Found> {
    let Some(Outcome::Ok((expect, _))) = model(text, m, n, rep) else { return None };
    budget::install();
    macro_rules! twice {
        ($r:expr, $label:expr) => {{
            let mut r = $r;
            for round in 0..2 {
                budget::arm(budget::DEFAULT_INSNS, 2 * (text.chars().count() as u64 + 3) + 6);
                let got = guarded(|| re.try_replacen(text, n, r.by_ref()).map(|c| c.to_string()));
                budget::disarm();
                match &got {
                    Outcome::Ok(s) if *s == expect => {}
                    Outcome::Panic(p) if p == budget::INSN_PAYLOAD => return None,
                    other => {
                        return Some(Found {
                            class: "replacer-reuse-differs".into(),
                            detail: format!(
                                "use #{} of one {} replacer through by_ref(): try_replacen({:?}, n={}, {:?}) returned {} ; model gives {:?}",
                                round + 1, $label, text, n, rep, other.show(), expect
                            ),
                        })
                    }
                }
            }
        }};
    }
    match rep {
        Rep::Identity => twice!(|c: &Captures<'_>| c.get(0).map(|m| m.as_str().to_string()).unwrap_or_default(), "closure"),
        // a counting closure keeps counting across the two calls: not a reuse candidate
        Rep::Counting => {}
        Rep::ConstClosure(s) => twice!(|_: &Captures<'_>| s.clone(), "closure"),
        Rep::NoExpand(s) => twice!(NoExpand(s.as_str()), "NoExpand"),
        Rep::Str(s) | Rep::OwnedString(s) | Rep::CowStr(s) => {
            twice!(s.as_str(), "&str");
            twice!(s.clone(), "String");
            twice!(&s.clone(), "&String");
            twice!(Cow::<str>::Owned(s.clone()), "Cow::Owned");
            twice!(Cow::<str>::Borrowed(s.as_str()), "Cow::Borrowed");
        }
        Rep::Template(t) => {
            let tpl = Rep::template_string(t);
            twice!(tpl.as_str(), "&str template");
            twice!(tpl.clone(), "String template");
            twice!(&tpl.clone(), "&String template");
            twice!(Cow::<str>::Owned(tpl.clone()), "Cow::Owned template");
            twice!(Cow::<str>::Borrowed(tpl.as_str()), "Cow::Borrowed template");
        }
    }
    None
}

fn replay_reuse(case: &Value) -> Option<(String, String)> {
    let re = compile_opt(case["pattern"].as_str()?, case["ci"].as_bool().unwrap_or(false))?;
    let text = case["text"].as_str()?;
    let m = fault_free_matches(&re, text);
    let rep = Rep::from_json(&case["rep"])?;
    reuse(&re, text, case["n"].as_u64()? as usize, &rep, &m).map(|f| (f.class, f.detail))
}

fn replay_equivalence(case: &Value) -> Option<(String, String)> {
    let re = compile_opt(case["pattern"].as_str()?, case["ci"].as_bool().unwrap_or(false))?;
    let fault = match &case["fault"] {
        Value::Array(a) => Some(IterFault { j: a[0].as_u64()?, kind: a[1].as_str()?.to_string(), val: a[2].as_u64()? as usize }),
        _ => None,
    };
    equivalence_under(&re, case["text"].as_str()?, case["n"].as_u64()? as usize, case["s"].as_str()?, &fault).map(|f| (f.class, f.detail))
}

fn gen_rep(rng: &mut Rng, re: &Regex) -> Rep {
    let consts = ["X", "", "yy", "é", "a"];
    let c = rng.pick(&consts).to_string();
    match rng.below(9) {
        8 => Rep::Counting,
        0 => Rep::Identity,
        1 => Rep::ConstClosure(c),
        2 => Rep::NoExpand(if rng.chance(1, 2) { format!("{}$1", c) } else { c }),
        3 => Rep::Str(c),
        4 => Rep::OwnedString(c),
        5 => Rep::CowStr(c),
        _ => {
            let ngroups = re.captures_len();
            let names: Vec<(String, usize)> = re
                .capture_names()
                .enumerate()
                .filter_map(|(i, n)| n.map(|n| (n.to_string(), i)))
                .collect();
            let mut toks = Vec::new();
            for _ in 0..rng.range(1, 4) {
                toks.push(match rng.below(5) {
                    0 => Tok::Lit(rng.pick(&["<", ">", "-", "é", " "]).to_string()),
                    1 => Tok::Dollar,
                    2 => Tok::Group(0),
                    3 if !names.is_empty() => {
                        let (n, i) = rng.pick(&names).clone();
                        Tok::Name(n, i)
                    }
                    // an index up to one past the last group: absent groups expand to nothing
                    _ => Tok::Group(rng.below(ngroups + 1)),
                });
            }
            // a reference is looked up as a *name* first: `${2}` means the group named "2" when
            // there is one, and only otherwise group number 2
            for t in toks.iter_mut() {
                if let Tok::Group(k) = t {
                    if let Some((name, idx)) = names.iter().find(|(nm, _)| *nm == k.to_string()) {
                        *t = Tok::Name(name.clone(), *idx);
                    }
                }
            }
            // un-braced `$N` / `$name` where the following template character cannot be read
            // as part of the name (names take the longest run of alphanumerics and `_`)
            for i in 0..toks.len() {
                let safe_follow = match toks.get(i + 1) {
                    None => true,
                    Some(Tok::Lit(l)) => l.chars().next().map_or(true, |c| !(c.is_alphanumeric() || c == '_' || c == '{')),
                    Some(_) => true, // the next token starts with `$`
                };
                if safe_follow && rng.chance(1, 2) {
                    toks[i] = match &toks[i] {
                        Tok::Group(n) => Tok::GroupBare(*n),
                        Tok::Name(s, n) => Tok::NameBare(s.clone(), *n),
                        other => other.clone(),
                    };
                }
            }
            Rep::Template(toks)
        }
    }
}

fn gen_cfg(rng: &mut Rng) -> GenCfg {
    let mut cfg = GenCfg::swarm(rng);
    // \K inside a look-behind is the listed C08 finding (items that overlap or never end: there
    // is no replacement to define then); inside a look-ahead the span stays ordered and the
    // statement applies as it stands
    cfg.allow_keepout_in_look = rng.chance(1, 3);
    cfg.allow_cond_in_atomic = true;
    cfg.numeric_names = rng.chance(1, 3);
    cfg
}

struct JobOut {
    st: Stats,
    nontrivial_hashes: Vec<u64>,
    sample: Option<Value>,
}

fn job(seed: u64, i: u64) -> (JobOut, Option<Violation>) {
    let mut rng = Rng::new(derive(seed, i));
    let mut out = JobOut { st: Stats::default(), nontrivial_hashes: Vec::new(), sample: None };
    let cfg = gen_cfg(&mut rng);
    for k in 0..4 {
        let (pattern, ast) = if k == 0 && i % 2 == 0 {
            (gen::CORPUS[((i / 2) as usize) % gen::CORPUS.len()].to_string(), None)
        } else {
            let ast = gen::gen_pattern(&mut rng, &cfg);
            if ast.facts().keepout_in_lookbehind {
                continue;
            }
            (ast.render(), Some(ast))
        };
        // now and then the whole case runs on a regex built with the builder's case-insensitive
        // option: every path of the replace (and the model's match sequence) must see it
        let ci = rng.chance(1, 10);
        let Some(re) = compile_opt(&pattern, ci) else { continue };
        for _ in 0..3 {
            let text = if rng.chance(1, gen::long_text_odds()) { gen::gen_long_text(&mut rng) } else { gen::gen_text(&mut rng, 8) };
            let long = text.len() > 40;
            if long {
                out.st.long_texts += 1;
            }
            let m = fault_free_matches(&re, &text);
            if m.find.iter().any(|i| matches!(i, Item::Panic(_))) || m.caps.iter().any(|c| matches!(c, Outcome::Panic(_))) {
                continue; // C05's business
            }
            // limits 0..3 as in the property's quantifier, and now and then "practically unlimited"
            let n = if rng.chance(1, 12) {
                *rng.pick(&[usize::MAX, usize::MAX / 2 + 1, 1 << 40])
            } else if long && rng.chance(1, 2) {
                // a long text has dozens of matches: limits in the middle of them and one past the last
                rng.below(m.find.len() + 2)
            } else {
                rng.below(4)
            };
            let rep = gen_rep(&mut rng, &re);
            let entry = match rng.below(8) {
                0 => Entry::Replacen,
                1 => Entry::Replace,
                2 => Entry::ReplaceAll,
                _ => Entry::TryReplacen,
            };
            let mut case = Case { pattern: pattern.clone(), text: text.clone(), n, rep, entry, fault: None, ci };
            let mut found = check_case(&re, &case, &m, &mut out.st);
            let nmatches = m.find.iter().filter(|i| matches!(i, Item::Match(..))).count();
            let mut fired_any = false;
            if found.is_none() && entry != Entry::TryReplacen {
                out.st.wrappers_compared += 1;
            }
            // replacer-kind equivalence on the same input
            if found.is_none() && rng.chance(1, 2) {
                out.st.equivalence_groups += 1;
                let s = rng.pick(&["X", "", "é-"]).to_string();
                if let Some(f) = equivalence(&re, &text, n, &s) {
                    let replay = json!({"kind": "c11-equivalence", "ci": ci, "pattern": pattern, "text": text, "n": n, "s": s});
                    return (out, Some(Violation::new(PROP, &f.class, f.detail, replay)));
                }
            }
            // the same replacer object used twice through by_ref()
            if found.is_none() && rng.chance(1, 2) {
                out.st.reuse_checks += 1;
                if let Some(f) = reuse(&re, &text, effective_n(&case), &case.rep, &m) {
                    let replay = json!({"kind": "c11-reuse", "ci": ci, "pattern": pattern, "text": text, "n": effective_n(&case), "rep": case.rep.to_json()});
                    return (out, Some(Violation::new(PROP, &f.class, f.detail, replay)));
                }
            }
            // the same template, A then its sibling B then A again (templates that name a group)
            if found.is_none() && !long && matches!(&case.rep, Rep::Template(t) if t.iter().any(|x| matches!(x, Tok::Name(..) | Tok::NameBare(..) | Tok::Group(_) | Tok::GroupBare(_)))) && rng.chance(1, 2) {
                let patterns = vec![pattern.clone(), sibling_of(&pattern), pattern.clone()];
                if compile_opt(&patterns[1], ci).is_some() {
                    out.st.sequences += 1;
                    if let Some((f, k)) = sequence(&patterns, ci, &case, &mut out.st) {
                        let replay = json!({"kind": "c11-sequence", "patterns": patterns, "base": case.to_json()});
                        let detail = format!("call #{} of the sequence (on /{}/): {}", k + 1, patterns[k], f.detail);
                        return (out, Some(Violation::new(PROP, &f.class, detail, replay)));
                    }
                }
            }
            // faults: pick searches of this very call (ordinals from a fault-free observation)
            if found.is_none() {
                let o = observe(&re, &case);
                if !o.runs.is_empty() && matches!(o.out, Outcome::Ok(_)) {
                    let nruns = o.runs.len();
                    let mut js = vec![0, nruns - 1, rng.below(nruns)];
                    js.sort();
                    js.dedup();
                    for j in js {
                        let rs = o.runs[j];
                        let mut fs = Vec::new();
                        if rs.backtracks > 0 {
                            fs.push(("ble", rng.below(rs.backtracks as usize)));
                            fs.push(("ble", rs.backtracks as usize));
                        }
                        if rs.peak_depth > 0 {
                            fs.push(("so", rng.below(rs.peak_depth)));
                        }
                        for (kind, val) in fs {
                            case.fault = Some(IterFault { j: j as u64, kind: kind.to_string(), val });
                            let before = out.st.faults_fired;
                            found = check_case(&re, &case, &m, &mut out.st);
                            if out.st.faults_fired > before {
                                fired_any = true;
                            }
                            if found.is_some() {
                                break;
                            }
                            if rng.chance(1, 4) {
                                out.st.equivalence_groups_faulted += 1;
                                let s = rng.pick(&["X", "", "é-"]).to_string();
                                if let Some(f) = equivalence_under(&re, &text, effective_n(&case), &s, &case.fault) {
                                    let fl = case.fault.as_ref().map(|f| json!([f.j, f.kind, f.val]));
                                    let replay = json!({"kind": "c11-equivalence", "ci": ci, "pattern": pattern, "text": text, "n": effective_n(&case), "s": s, "fault": fl});
                                    return (out, Some(Violation::new(PROP, &f.class, f.detail, replay)));
                                }
                            }
                        }
                        if found.is_some() {
                            break;
                        }
                    }
                }
            }
            if nmatches >= 1 || fired_any {
                let mut h = Fnv::new();
                h.str(&case.pattern);
                h.str(&case.text);
                h.u64(case.n as u64);
                h.str(&format!("{:?}", case.rep));
                out.nontrivial_hashes.push(h.0);
                if out.sample.is_none() {
                    out.sample = Some(json!({"pattern": case.pattern, "text": case.text, "n": case.n, "replacer": format!("{:?}", case.rep), "entry": case.entry.name(), "matches": format!("{:?}", m.find)}));
                }
            }
            if let Some(f) = found {
                let mc = minimise(&case, ast.as_ref(), &f.class);
                let detail = class_of(&mc).map(|(_, d)| d).unwrap_or(f.detail);
                return (out, Some(Violation::new(PROP, &f.class, detail, mc.to_json())));
            }
        }
    }
    (out, None)
}

fn add(a: &mut Stats, b: &Stats) {
    a.calls += b.calls;
    a.model_compared += b.model_compared;
    a.borrowed_results += b.borrowed_results;
    a.owned_results += b.owned_results;
    a.faults_configured += b.faults_configured;
    a.faults_fired += b.faults_fired;
    a.fault_on_replaced_match += b.fault_on_replaced_match;
    a.fault_on_lookahead_match += b.fault_on_lookahead_match;
    a.equivalence_groups += b.equivalence_groups;
    a.wrappers_compared += b.wrappers_compared;
    a.vm_insns += b.vm_insns;
    a.budget_skipped += b.budget_skipped;
    a.reuse_checks += b.reuse_checks;
    a.equivalence_groups_faulted += b.equivalence_groups_faulted;
    a.long_texts += b.long_texts;
    a.error_search_not_made += b.error_search_not_made;
    a.sequences += b.sequences;
}

pub fn digest(seed: u64, n: u64, workers: usize) -> Vec<u64> {
    let (res, _) = run_batch(n, workers, move |i| {
        let (o, v) = job(seed, i);
        let mut d = Fnv(o.st.digest);
        d.u64(o.st.calls);
        d.u64(v.is_some() as u64);
        (d.0, None)
    });
    res.into_iter().map(|(_, d)| d).collect()
}

pub fn run(opts: &Opts) -> i32 {
    let t0 = now();
    let thorough = opts.tier == Tier::Thorough;
    let n = if opts.budget > 0 { opts.budget } else if thorough { 12_000_000 } else { 300_000 };
    let seed = opts.seed;
    let mut st = Stats::default();
    let mut nt = Distinct::new();
    let mut samples = Vec::new();
    let (jobs_done, viol) = run_batch_chunked(n, opts.workers, move |i| job(seed, i), |_, r| {
        add(&mut st, &r.st);
        nt.extend(r.nontrivial_hashes.iter());
        if samples.len() < 4 {
            if let Some(s) = &r.sample {
                samples.push(s.clone());
            }
        }
    });
    let wall = t0.elapsed().as_secs_f64();
    let mut code = 0;
    let mut violations = 0;
    if let Some((i, v)) = &viol {
        violations = 1;
        let path = write_replay(v, derive(seed, *i));
        let again = replay(&v.replay);
        if again.as_ref().map(|(c, _)| c.as_str()) != Some(v.class.as_str()) {
            eprintln!("harness error: C11 violation did not reproduce on replay: {:?} vs {}", again, v.class);
            return 2;
        }
        report_violation(v, &path);
        code = 1;
    }
    if samples.is_empty() {
        samples.push(json!("no non-trivial call in this run"));
    }
    if opts.write_evidence {
        let mut extra = serde_json::Map::new();
        extra.insert("replace_calls".into(), json!(st.calls));
        extra.insert("compared_with_model".into(), json!(st.model_compared));
        extra.insert("faults".into(), json!({
            "limit_fault_on_search_j_configured": st.faults_configured,
            "limit_fault_on_search_j_fired": st.faults_fired,
            "configured_not_fired": st.faults_configured - st.faults_fired,
            "fired_on_a_search_feeding_a_replacement": st.fault_on_replaced_match,
            "fired_on_the_search_one_past_the_limit": st.fault_on_lookahead_match,
        }));
        extra.insert("logical_time".into(), json!({"vm_instructions": st.vm_insns}));
        extra.insert("probes".into(), json!({
            "borrowed_results": st.borrowed_results,
            "owned_results": st.owned_results,
            "replacer_kind_equivalence_groups": st.equivalence_groups,
            "replacer_objects_reused_through_by_ref": st.reuse_checks,
            "texts_of_40_to_250_characters": st.long_texts,
            "template_used_with_regex_A_then_sibling_B_then_A_sequences": st.sequences,
            "calls_that_returned_ok_without_making_the_search_that_errors_in_the_reference_iteration": st.error_search_not_made,
            "replacer_kind_equivalence_groups_under_a_limit_fault": st.equivalence_groups_faulted,
            "calls_skipped_over_instruction_budget": st.budget_skipped,
            "panicking_wrappers_compared": st.wrappers_compared,
        }));
        extra.insert("runs_per_hour".into(), json!(((st.calls as f64) / wall.max(1e-9) * 3600.0) as u64));
        extra.insert("seeds".into(), json!(format!("derive({}, 0..{})", seed, jobs_done)));
        extra.insert("real_vs_stub".into(), json!({
            "real": ["Regex::try_replacen / replace / replacen / replace_all", "Replacer impls (closures, &str, String, Cow, NoExpand)", "find_iter / captures_iter", "vm::run", "regex-automata"],
            "model": ["executable replace model (sim/src/c11.rs model) over the fault-free match sequence; expands only $$, ${N}, ${name} itself"],
            "stubbed": ["limits of search #j overridden through the H2 hook"],
        }));
        Evidence {
            property: PROP.into(),
            tier: opts.tier,
            seed,
            level: "exploration",
            evaluations: st.calls,
            distinct_nontrivial: nt.len() as u64,
            rule: "call = (pattern, text <= 8 chars (thorough tier: a third up to 14), limit 0..3, replacer kind, entry point), fault-free and with a limit fault on search #j of the call (first/last/random; below and at that search's thresholds); non-trivial = at least one match to replace or a fired fault; distinct by hash of (pattern, text, n, replacer)".into(),
            samples,
            extra,
            assumptions: vec![
                "find_iter / captures_iter sequences (C08) and single searches are trusted".into(),
                "template parsing beyond well-formed $$, ${N}, ${name} tokens is C12's and not decided".into(),
            ],
            wall_s: wall,
            violations,
        }
        .write();
    }
    println!(
        "C11 {}: {} replace calls, {} compared with the model, {} faults fired of {} configured, {} distinct non-trivial, {:.1}s",
        opts.tier.name(), st.calls, st.model_compared, st.faults_fired, st.faults_configured, nt.len(), wall
    );
    code
}
