//! frsim — deterministic simulation with fault injection for fancy-regex (see /verif/DESIGN.md).
//!
//!   frsim check <ID> [--tier quick|thorough] [--seed N] [--workers N] [--budget N] [--no-evidence]
//!   frsim replay <FILE>
//!   frsim selftest determinism [--seeds N]
//!
//! Exit codes: 0 held on everything explored, 1 violation (a `VIOLATION property=.. replay=..`
//! line is printed), 2 harness error.

mod c07;
mod c08;
mod c11;
mod c18;
mod c20;
mod common;
mod gen;
mod rng;
mod sched;
mod shadow;

use common::*;

fn usage() -> ! {
    eprintln!("usage: frsim check <C07|C08|C11|C18|C20> [--tier quick|thorough] [--seed N] [--workers N] [--budget N] [--no-evidence]\n       frsim replay <file>\n       frsim selftest determinism [--seeds N]");
    std::process::exit(2);
}

fn main() {
    install_quiet_panic_hook();
    let args: Vec<String> = std::env::args().skip(1).collect();
    if args.is_empty() {
        usage();
    }
    let mut opts = Opts {
        tier: match std::env::var("VERIF_TIER").as_deref() {
            Ok("thorough") => Tier::Thorough,
            _ => Tier::Quick,
        },
        seed: std::env::var("VERIF_SEED")
            .ok()
            .and_then(|s| s.trim().parse::<u64>().ok())
            .unwrap_or(1),
        workers: std::thread::available_parallelism().map(|n| n.get()).unwrap_or(4),
        budget: 0,
        write_evidence: true,
    };
    let mut positional = Vec::new();
    let mut seeds = 200u64;
    let mut i = 0;
    while i < args.len() {
        match args[i].as_str() {
            "--tier" => {
                i += 1;
                opts.tier = match args.get(i).map(|s| s.as_str()) {
                    Some("quick") => Tier::Quick,
                    Some("thorough") => Tier::Thorough,
                    _ => usage(),
                };
            }
            "--seed" => {
                i += 1;
                opts.seed = args.get(i).and_then(|s| s.parse().ok()).unwrap_or_else(|| usage());
            }
            "--workers" => {
                i += 1;
                opts.workers = args.get(i).and_then(|s| s.parse().ok()).unwrap_or_else(|| usage());
            }
            "--budget" => {
                i += 1;
                opts.budget = args.get(i).and_then(|s| s.parse().ok()).unwrap_or_else(|| usage());
            }
            "--seeds" => {
                i += 1;
                seeds = args.get(i).and_then(|s| s.parse().ok()).unwrap_or_else(|| usage());
            }
            "--no-evidence" => opts.write_evidence = false,
            other => positional.push(other.to_string()),
        }
        i += 1;
    }
    println!("frsim seed={} tier={} workers={}", opts.seed, opts.tier.name(), opts.workers);
    if opts.tier == Tier::Thorough {
        // the thorough tier also draws longer texts (up to 14 characters instead of 8)
        gen::set_text_bonus(6);
    }
    let code = match positional.first().map(|s| s.as_str()) {
        Some("check") => match positional.get(1).map(|s| s.as_str()) {
            Some("C07") => c07::run(&opts),
            Some("C08") => c08::run(&opts),
            Some("C11") => c11::run(&opts),
            Some("C18") => c18::run(&opts),
            Some("C20") => c20::run(&opts),
            _ => usage(),
        },
        Some("probe") => {
            let (Some(p), Some(t)) = (positional.get(1), positional.get(2)) else { usage() };
            probe(p, t)
        }
        Some("lifecycle-probe") => lifecycle_probe(),
        Some("replay") => {
            let Some(path) = positional.get(1) else { usage() };
            replay_file(path)
        }
        Some("selftest") => match positional.get(1).map(|s| s.as_str()) {
            Some("determinism") => selftest_determinism(&opts, seeds),
            _ => usage(),
        },
        _ => usage(),
    };
    std::process::exit(code);
}

fn replay_file(path: &str) -> i32 {
    let Ok(text) = std::fs::read_to_string(path) else {
        eprintln!("harness error: cannot read {}", path);
        return 2;
    };
    let Ok(v) = serde_json::from_str::<serde_json::Value>(&text) else {
        eprintln!("harness error: {} is not JSON", path);
        return 2;
    };
    let prop = v["property"].as_str().unwrap_or("");
    let class = v["class"].as_str().unwrap_or("");
    let case = &v["case"];
    let got = match prop {
        "C07" => c07::replay(case),
        "C08" => c08::replay(case),
        "C11" => c11::replay(case),
        "C18" => c18::replay(case),
        "C20" => c20::replay(case),
        _ => {
            eprintln!("harness error: unknown property in replay file");
            return 2;
        }
    };
    match got {
        Some((c, d)) => {
            println!("replay reproduced: class={} detail={}", c, d);
            if c != class {
                println!("note: recorded class was {}", class);
            }
            println!("VIOLATION property={} replay={}", prop, path);
            1
        }
        None => {
            println!("replay of {} did not reproduce a violation on this tree", path);
            0
        }
    }
}

/// Determinism self-test: the same seeds, run twice and at two worker counts, must produce
/// identical event digests.
fn selftest_determinism(opts: &Opts, seeds: u64) -> i32 {
    let mut ok = true;
    for (name, f) in [
        ("C18-schedules", c18::digest as fn(u64, u64, usize) -> Vec<u64>),
        ("C07-sweeps", c07::digest),
        ("C08-histories", c08::digest),
        ("C11-histories", c11::digest),
        ("C20-histories+shadowed-runs", c20::digest),
        ("C18-volume-schedules", c18::heavy_digest),
    ] {
        // volume runs are seconds each: a handful of them
        let seeds = if name == "C18-volume-schedules" { (seeds / 250).clamp(3, 8) } else { seeds };
        let a = f(opts.seed, seeds, opts.workers);
        let b = f(opts.seed, seeds, 3);
        let c = f(opts.seed, seeds, opts.workers);
        let same = a == b && a == c;
        let distinct: std::collections::HashSet<_> = a.iter().collect();
        println!(
            "determinism {}: {} seeds x 3 executions (workers {}, 3, {}) -> {} ; {} distinct digests ; fold {:016x}",
            name,
            seeds,
            opts.workers,
            opts.workers,
            if same { "identical" } else { "DIVERGED" },
            distinct.len(),
            a.iter().fold(0xcbf29ce484222325u64, |h, x| (h ^ x).wrapping_mul(0x100000001b3))
        );
        if !same {
            for (i, ((x, y), z)) in a.iter().zip(b.iter()).zip(c.iter()).enumerate() {
                if x != y || x != z {
                    println!("  first divergence at run {}: {:x} {:x} {:x}", i, x, y, z);
                    break;
                }
            }
            ok = false;
        }
    }
    if ok {
        0
    } else {
        eprintln!("harness error: simulator is not deterministic");
        2
    }
}

/// Debugging aid: does a regex compiled right after another one was dropped land on the same
/// address (the precondition of address-keyed cache bugs), and does a long-lived worker thread
/// then answer correctly?
fn lifecycle_probe() -> i32 {
    use std::sync::mpsc;
    use std::sync::Arc;
    let pats = [r"\w+(?=!)", r"\d+(?=!)", r"[ab]+(?=!)", r"[^a]+(?=!)"];
    let text = "ab 12! a1-a b2!";
    let (tx, rx) = mpsc::channel::<Arc<fancy_regex::Regex>>();
    let (rtx, rrx) = mpsc::channel::<String>();
    let worker = std::thread::spawn(move || {
        for re in rx {
            let r = guarded(|| re.find(text).map(|m| m.map(|m| (m.start(), m.end()))));
            drop(re);
            rtx.send(r.show()).unwrap();
        }
    });
    let mut bad = 0;
    let mut same_addr = 0;
    let mut last_addr = 0usize;
    for round in 0..40 {
        let p = pats[round % pats.len()];
        let re = Arc::new(compile(p).unwrap());
        let addr = Arc::as_ptr(&re) as usize;
        if addr == last_addr {
            same_addr += 1;
        }
        last_addr = addr;
        let expect = guarded(|| compile(p).unwrap().find(text).map(|m| m.map(|m| (m.start(), m.end())))).show();
        tx.send(re.clone()).unwrap();
        let got = rrx.recv().unwrap();
        if got != expect {
            bad += 1;
            println!("round {} /{}/: worker got {} expected {}", round, p, got, expect);
        }
        drop(re);
    }
    drop(tx);
    let _ = worker.join();
    println!("lifecycle probe: {} of 40 rounds wrong on the worker; Arc<Regex> address recurred {} times", bad, same_addr);
    0
}

/// Debugging aid: run one pattern on one text and print what the library returns.
fn probe(pattern: &str, text: &str) -> i32 {
    use fancy_regex::verif;
    let Some(re) = compile(pattern) else {
        println!("does not compile");
        return 0;
    };
    println!("fancy={}", re.verif_is_fancy());
    println!("{:?}", DebugProg(&re));
    verif::record_run_stats(true);
    let r = guarded(|| re.captures_from_pos(text, 0).map(|c| c.map(|c| groups_of(&c))));
    println!("captures: {}", r.show());
    println!("stats: {:?}", verif::take_run_stats());
    let items: Vec<String> = re
        .find_iter(text)
        .take(20)
        .map(|m| match m {
            Ok(m) => format!("({},{})", m.start(), m.end()),
            Err(e) => format!("Err({:?})", e),
        })
        .collect();
    println!("find_iter: {}", items.join(" "));
    if let Ok(tpl) = std::env::var("FRSIM_PROBE_TEMPLATE") {
        println!("replace_all({:?}) = {:?}", tpl, guarded(|| re.try_replacen(text, 0, tpl.as_str()).map(|c| c.to_string())).show());
        println!("captures_len = {}, names = {:?}", re.captures_len(), re.capture_names().collect::<Vec<_>>());
    }
    0
}

struct DebugProg<'a>(&'a fancy_regex::Regex);
impl<'a> std::fmt::Debug for DebugProg<'a> {
    fn fmt(&self, f: &mut std::fmt::Formatter<'_>) -> std::fmt::Result {
        self.0.debug_print(f)
    }
}
