use crate::common::*;
use serde_json::Value;
pub fn run(_opts: &Opts) -> i32 { 2 }
pub fn replay(_case: &Value) -> Option<(String, String)> { None }
pub fn digest(_seed: u64, _n: u64, _workers: usize) -> Vec<u64> { Vec::new() }
