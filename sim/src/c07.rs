//! C07 — searches terminate; limit errors only when the limit is really exceeded.
//!
//! System under simulation: one `vm::run` behind the public search API. Faults: the two limit
//! aborts, landing at every possible backtrack index / branch-stack depth (enumerated per case).
//! Logical clock: VM instructions and backtracks counted by the hooks, independently of the VM.

use crate::c20::minimise_ast;
use crate::common::*;
use crate::gen::{self, GenCfg, Node};
use crate::rng::{derive, Fnv, Rng};
use crate::shadow::{Shadow, ABORT_PAYLOAD};
use fancy_regex::verif::{self, EndReason, LimitOverride, RunStats};
use fancy_regex::{Regex, RegexBuilder};
use serde_json::{json, Value};
use std::collections::HashSet;

pub const PROP: &str = "C07";
const DEFAULT_BACKTRACK_LIMIT: usize = 1_000_000;
/// a search that never holds more than this many alternatives must not overflow a default stack
const TINY_DEPTH: usize = 10_000;

#[derive(Clone, Copy, Debug, PartialEq, Eq)]
pub enum Api {
    Captures,
    Find,
    IsMatch,
}

impl Api {
    fn name(self) -> &'static str {
        match self {
            Api::Captures => "captures_from_pos",
            Api::Find => "find_from_pos",
            Api::IsMatch => "is_match",
        }
    }
    fn parse(s: &str) -> Option<Api> {
        Some(match s {
            "captures_from_pos" => Api::Captures,
            "find_from_pos" => Api::Find,
            "is_match" => Api::IsMatch,
            _ => return None,
        })
    }
}

#[derive(Clone, Debug, PartialEq, Eq)]
pub enum Fault {
    /// backtrack limit k through the per-run override hook
    Ble(usize),
    /// branch-stack capacity d through the per-run override hook
    So(usize),
    /// backtrack limit k through RegexBuilder::backtrack_limit (a fresh Regex is built)
    Builder(usize),
    /// backtrack limit k through a builder that also sets the other options:
    /// (k, case_insensitive, delegate size limits set, limit set before the others)
    BuilderOpts(usize, bool, bool, bool),
}

impl Fault {
    fn to_json(&self) -> Value {
        match self {
            Fault::Ble(k) => json!(["ble", k]),
            Fault::So(d) => json!(["so", d]),
            Fault::Builder(k) => json!(["builder", k]),
            Fault::BuilderOpts(k, ci, sizes, first) => json!(["builder_opts", k, ci, sizes, first]),
        }
    }
    fn from_json(v: &Value) -> Option<Fault> {
        let a = v.as_array()?;
        let n = a.get(1)?.as_u64()? as usize;
        Some(match a.first()?.as_str()? {
            "ble" => Fault::Ble(n),
            "so" => Fault::So(n),
            "builder" => Fault::Builder(n),
            "builder_opts" => Fault::BuilderOpts(n, a.get(2)?.as_bool()?, a.get(3)?.as_bool()?, a.get(4)?.as_bool()?),
            _ => return None,
        })
    }
}

#[derive(Clone, Debug)]
pub struct Case {
    pub pattern: String,
    pub text: String,
    pub pos: usize,
    pub api: Api,
}

impl Case {
    fn to_json(&self, fault: &Option<Fault>) -> Value {
        json!({
            "kind": "c07",
            "pattern": self.pattern,
            "text": self.text,
            "pos": self.pos,
            "api": self.api.name(),
            "fault": fault.as_ref().map(|f| f.to_json()),
        })
    }
}

type Res = Option<Groups>;

fn call(re: &Regex, case: &Case) -> Outcome<Res> {
    match case.api {
        Api::Captures => guarded(|| re.captures_from_pos(&case.text, case.pos).map(|c| c.map(|c| groups_of(&c)))),
        Api::Find => guarded(|| {
            re.find_from_pos(&case.text, case.pos)
                .map(|m| m.map(|m| vec![Some((m.start(), m.end()))]))
        }),
        Api::IsMatch => guarded(|| re.is_match(&case.text).map(|b| if b { Some(Vec::new()) } else { None })),
    }
}

/// One observed execution: the value and the hook's statistics for the (single) vm::run.
struct Exec {
    out: Outcome<Res>,
    stats: Option<RunStats>,
    progress_violation: Option<(String, String)>,
}

fn exec(re: &Regex, case: &Case, lim: LimitOverride, monitor: bool) -> Exec {
    verif::reset_run_ordinal();
    verif::record_run_stats(true);
    verif::set_fault_plan(vec![(0, lim)]);
    let res = if monitor {
        let (shadow, res) = Shadow::new(false, true);
        verif::set_observer(Some(Box::new(shadow)));
        Some(res)
    } else {
        None
    };
    budget::install();
    // a search on these tiny texts that needs more than 40 M instructions is skipped as too heavy
    // (the monitored fault-free pass costs ~0.1 us per instruction)
    budget::arm(40_000_000, u64::MAX);
    let out = call(re, case);
    budget::disarm();
    verif::set_observer(None);
    verif::set_fault_plan(Vec::new());
    let stats = verif::take_run_stats();
    verif::record_run_stats(false);
    let progress_violation = res.and_then(|r| r.borrow().found.clone());
    Exec {
        out,
        stats: stats.first().copied(),
        progress_violation,
    }
}

#[derive(Default, Clone, Debug)]
pub struct CaseStats {
    pub runs: u64,
    pub insns: u64,
    pub backtracks: u64,
    pub ble_configured: u64,
    pub ble_fired: u64,
    pub so_configured: u64,
    pub so_fired: u64,
    pub builder_configured: u64,
    pub builder_fired: u64,
    pub threshold_crossed: u64,
    pub end_match: u64,
    pub end_nomatch: u64,
    pub end_ble: u64,
    pub end_so: u64,
    pub panicked: u64,
    pub heavy_default_limit_hit: u64,
    pub epsilon_guard_fired: u64,
    pub nontrivial: bool,
    pub digest: u64,
}

pub struct Found {
    pub class: String,
    pub detail: String,
    pub fault: Option<Fault>,
}

fn found(class: &str, detail: String, fault: Option<Fault>) -> Option<Found> {
    Some(Found {
        class: class.to_string(),
        detail,
        fault,
    })
}

/// Oracle for one faulted execution against the fault-free facts (u, n, p).
fn judge(fault: &Fault, e: &Exec, u: &Outcome<Res>, n: u64, p: usize, st: &mut CaseStats) -> Option<Found> {
    let f = Some(fault.clone());
    if matches!(&e.out, Outcome::Panic(m) if m == budget::INSN_PAYLOAD) {
        // over the instruction budget: too heavy for this workload, not judged
        return None;
    }
    let Some(rs) = e.stats else {
        return found("no-run-recorded", format!("fault {:?}: the search did not reach vm::run", fault), f);
    };
    match fault {
        Fault::Ble(k) | Fault::Builder(k) => {
            let k = *k as u64;
            match &e.out {
                Outcome::Panic(m) if m != ABORT_PAYLOAD => {
                    return found("abort-panic", format!("limit {} made the search panic: {}", k, m), f)
                }
                Outcome::Err(ErrKind::BacktrackLimit) => {
                    if matches!(fault, Fault::Ble(_)) {
                        st.ble_fired += 1
                    } else {
                        st.builder_fired += 1
                    }
                    // legitimacy: the limit must really have been exceeded, by the hook's own count
                    if rs.backtracks != k + 1 {
                        return found(
                            "ble-illegitimate",
                            format!("BacktrackLimitExceeded under limit {} after {} backtracks (hook count); must be exactly {}", k, rs.backtracks, k + 1),
                            f,
                        );
                    }
                    if k >= n {
                        return found(
                            "ble-not-transparent",
                            format!("limit {} >= the {} backtracks the unlimited run needs, yet BacktrackLimitExceeded", k, n),
                            f,
                        );
                    }
                }
                other => {
                    if other != u {
                        return found(
                            "abort-wrong-answer",
                            format!("under backtrack limit {} the search returned {} ; unlimited answer is {}", k, other.show(), u.show()),
                            f,
                        );
                    }
                    // bounded work: a run that honours limit k performs at most k+1 backtracks
                    if rs.backtracks > k + 1 {
                        return found(
                            "ble-ignored",
                            format!("limit {} but {} backtracks were performed", k, rs.backtracks),
                            f,
                        );
                    }
                }
            }
        }
        // judged where it is run (check_case, step 4): the answer depends on the other options
        Fault::BuilderOpts(..) => {}
        Fault::So(d) => {
            let d = *d;
            match &e.out {
                Outcome::Panic(m) if m != ABORT_PAYLOAD => {
                    return found("abort-panic", format!("stack capacity {} made the search panic: {}", d, m), f)
                }
                Outcome::Err(ErrKind::StackOverflow) => {
                    st.so_fired += 1;
                    if rs.pushes_refused == 0 || rs.refused_at_depth != d {
                        return found(
                            "so-illegitimate",
                            format!("StackOverflow under capacity {} but refused pushes = {}, refused at depth {}", d, rs.pushes_refused, rs.refused_at_depth),
                            f,
                        );
                    }
                    if d >= p {
                        return found(
                            "so-not-transparent",
                            format!("capacity {} >= peak depth {} of the unlimited run, yet StackOverflow", d, p),
                            f,
                        );
                    }
                }
                other => {
                    if other != u {
                        return found(
                            "abort-wrong-answer",
                            format!("under stack capacity {} the search returned {} ; unlimited answer is {}", d, other.show(), u.show()),
                            f,
                        );
                    }
                }
            }
            if rs.peak_depth > d {
                return found(
                    "so-capacity-exceeded",
                    format!("capacity {} but the branch stack reached depth {}", d, rs.peak_depth),
                    f,
                );
            }
        }
    }
    None
}

fn sweep_points(n: usize, cap: usize, rng: &mut Rng, extra: usize) -> Vec<usize> {
    if n <= cap {
        (0..=n + 1).collect()
    } else {
        let mut v = vec![0, 1, 2, 3, 5, 10, 100, n - 1, n, n + 1];
        for _ in 0..extra {
            v.push(rng.below(n));
        }
        v.sort();
        v.dedup();
        v
    }
}

/// Full check of one case: fault-free pass under the progress monitor, then the abort-point sweep.
pub fn check_case(re: &Regex, case: &Case, cap: usize, with_builder: bool, rng: &mut Rng, st: &mut CaseStats) -> Option<Found> {
    // 1. fault-free, default limits, progress monitor on
    let base = exec(re, case, LimitOverride::default(), true);
    st.runs += 1;
    let mut dg = Fnv(st.digest ^ 0x1234);
    dg.str(&base.out.show());
    if let Some((class, detail)) = base.progress_violation {
        return found(&class, detail, None);
    }
    let Some(rs) = base.stats else {
        // delegated as a whole: no VM run, no limits apply
        st.digest = dg.0;
        return None;
    };
    st.insns += rs.insns;
    st.backtracks += rs.backtracks;
    dg.u64(rs.backtracks);
    dg.u64(rs.peak_depth as u64);
    dg.u64(rs.insns);
    st.digest = dg.0;
    match rs.end {
        EndReason::Match => st.end_match += 1,
        EndReason::NoMatch => st.end_nomatch += 1,
        EndReason::BacktrackLimit => st.end_ble += 1,
        EndReason::StackOverflow => st.end_so += 1,
        EndReason::Running => {}
    }
    match &base.out {
        Outcome::Panic(_) => {
            // a panicking search is C05's business; nothing to sweep
            st.panicked += 1;
            return None;
        }
        Outcome::Err(ErrKind::BacktrackLimit) => {
            // default limits hit without a repeated configuration: a genuinely heavy search.
            // Legitimacy still applies.
            st.heavy_default_limit_hit += 1;
            if rs.backtracks != rs.backtrack_limit as u64 + 1 {
                return found(
                    "ble-illegitimate",
                    format!("BacktrackLimitExceeded with default limit {} after {} backtracks (hook count)", rs.backtrack_limit, rs.backtracks),
                    None,
                );
            }
            return None;
        }
        Outcome::Err(ErrKind::StackOverflow) => {
            st.heavy_default_limit_hit += 1;
            // "with default limits a search whose exploration is tiny never reports
            // StackOverflow": whatever the default capacity is, a search that never had more than
            // TINY_DEPTH alternatives alive is tiny in the only sense that matters for the stack.
            if rs.peak_depth < TINY_DEPTH {
                return found(
                    "so-on-tiny-search",
                    format!("StackOverflow with default limits although at most {} alternatives were ever alive (capacity in force: {})", rs.peak_depth, rs.max_stack),
                    None,
                );
            }
            if rs.pushes_refused == 0 || rs.refused_at_depth != rs.max_stack {
                return found(
                    "so-illegitimate",
                    format!("StackOverflow with default capacity {} but refused at depth {}", rs.max_stack, rs.refused_at_depth),
                    None,
                );
            }
            return None;
        }
        Outcome::Err(ErrKind::Other(e)) => {
            return found("unexpected-error", format!("search returned {}", e), None);
        }
        Outcome::Ok(_) => {}
    }
    if rs.backtrack_limit != DEFAULT_BACKTRACK_LIMIT {
        return found(
            "default-limit-changed",
            format!("Regex::new gives backtrack limit {} (documented default {})", rs.backtrack_limit, DEFAULT_BACKTRACK_LIMIT),
            None,
        );
    }
    let u = base.out;
    let n = rs.backtracks;
    let p = rs.peak_depth;
    if n >= 1 {
        st.nontrivial = true;
    }
    // 2. abort-point sweep
    for k in sweep_points(n as usize, cap, rng, 8) {
        let f = Fault::Ble(k);
        let e = exec(re, case, LimitOverride { backtrack_limit: Some(k), max_stack: None }, false);
        st.runs += 1;
        st.ble_configured += 1;
        if k as u64 == n || k as u64 + 1 == n {
            st.threshold_crossed += 1;
        }
        if let Some(rs) = e.stats {
            st.insns += rs.insns;
        }
        let mut dg = Fnv(st.digest);
        dg.str(&e.out.show());
        st.digest = dg.0;
        if let Some(v) = judge(&f, &e, &u, n, p, st) {
            return Some(v);
        }
    }
    for d in sweep_points(p, cap, rng, 8) {
        let f = Fault::So(d);
        let e = exec(re, case, LimitOverride { backtrack_limit: None, max_stack: Some(d) }, false);
        st.runs += 1;
        st.so_configured += 1;
        if let Some(rs) = e.stats {
            st.insns += rs.insns;
        }
        let mut dg = Fnv(st.digest);
        dg.str(&e.out.show());
        st.digest = dg.0;
        if let Some(v) = judge(&f, &e, &u, n, p, st) {
            return Some(v);
        }
    }
    // 3. the same through the public builder path (costs a build; sampled)
    if with_builder {
        let mut ks = vec![0usize, 1, 2, 3, 5, 10, 100, 1_000_000];
        if n > 0 {
            ks.push(n as usize - 1);
        }
        ks.push(n as usize);
        ks.sort();
        ks.dedup();
        // All regexes are built first, from ONE builder whose limit is changed between builds, and
        // only then searched: a limit that is shared instead of copied, or read at the wrong time,
        // shows as a regex running with a later build's limit.
        let mut builder = RegexBuilder::new(&case.pattern);
        let mut built: Vec<(usize, Regex)> = Vec::new();
        for k in ks {
            builder.backtrack_limit(k);
            let r = std::panic::catch_unwind(std::panic::AssertUnwindSafe(|| builder.build())).ok().and_then(|r| r.ok());
            if let Some(r) = r {
                built.push((k, r));
            }
        }
        for (k, re2) in &built {
            let k = *k;
            let f = Fault::Builder(k);
            let e = exec(re2, case, LimitOverride::default(), false);
            st.runs += 1;
            st.builder_configured += 1;
            if let Some(rs) = e.stats {
                if rs.backtrack_limit != k {
                    return found(
                        "builder-limit-not-applied",
                        format!("RegexBuilder::backtrack_limit({}) but the run used limit {}", k, rs.backtrack_limit),
                        Some(f),
                    );
                }
            }
            if let Some(v) = judge(&f, &e, &u, n, p, st) {
                return Some(v);
            }
            // a clone keeps the limit it was built with
            let e2 = exec(&re2.clone(), case, LimitOverride::default(), false);
            st.runs += 1;
            if let Some(rs) = e2.stats {
                if rs.backtrack_limit != k {
                    return found(
                        "builder-limit-not-applied",
                        format!("a clone of a regex built with backtrack_limit({}) ran with limit {}", k, rs.backtrack_limit),
                        Some(f),
                    );
                }
            }
        }
        // 4. the builder's other options, set before or after the limit, do not disturb it. The
        // case-insensitive flag changes what the pattern means, so only what does not depend on
        // the answer is judged: the run used the limit that was set, an abort happened exactly at
        // the (k+1)-th backtrack, an answer needed at most k.
        // 4 of the 16 (limit, combination) pairs per case, chosen by the case itself (so that a
        // replay builds the same ones): each pair costs a regex build
        let mut pick = Fnv::new();
        pick.str(&case.pattern);
        pick.str(&case.text);
        for i in 0..4u64 {
            let sel = (pick.0.wrapping_add(i.wrapping_mul(5))) % 16;
            let k = if sel & 8 != 0 { 1usize << 33 } else { 3usize };
            {
                let combo = (sel & 7) as u32;
                let (ci, sizes, first) = (combo & 1 != 0, combo & 2 != 0, combo & 4 != 0);
                let mut b = RegexBuilder::new(&case.pattern);
                if first {
                    b.backtrack_limit(k);
                }
                if ci {
                    b.case_insensitive(true);
                }
                if sizes {
                    b.delegate_size_limit(64 << 20);
                    b.delegate_dfa_size_limit(8 << 20);
                }
                if !first {
                    b.backtrack_limit(k);
                }
                let Some(re3) = std::panic::catch_unwind(std::panic::AssertUnwindSafe(|| b.build())).ok().and_then(|r| r.ok()) else {
                    continue;
                };
                let f = Fault::BuilderOpts(k, ci, sizes, first);
                let e = exec(&re3, case, LimitOverride::default(), false);
                st.runs += 1;
                st.builder_configured += 1;
                let Some(rs) = e.stats else { continue };
                if rs.backtrack_limit != k {
                    return found(
                        "builder-limit-not-applied",
                        format!(
                            "RegexBuilder with backtrack_limit({}) (case_insensitive {}, delegate size limits {}, limit set {}) but the run used limit {}",
                            k, ci, if sizes { "set" } else { "default" }, if first { "first" } else { "last" }, rs.backtrack_limit
                        ),
                        Some(f),
                    );
                }
                match &e.out {
                    Outcome::Err(ErrKind::BacktrackLimit) if rs.backtracks != k as u64 + 1 => {
                        return found(
                            "ble-illegitimate",
                            format!("BacktrackLimitExceeded under builder limit {} after {} backtracks (hook count); must be exactly {}", k, rs.backtracks, k as u64 + 1),
                            Some(f),
                        );
                    }
                    Outcome::Ok(_) if rs.backtracks > k as u64 => {
                        return found(
                            "limit-not-enforced",
                            format!("an answer under builder limit {} after {} backtracks (hook count)", k, rs.backtracks),
                            Some(f),
                        );
                    }
                    _ => {}
                }
            }
        }
    }
    None
}

fn class_of(pattern: &str, text: &str, pos: usize, api: Api, fault: &Option<Fault>) -> Option<(String, String, Option<Fault>)> {
    let re = compile(pattern)?;
    if pos > text.len() || !text.is_char_boundary(pos) {
        return None;
    }
    let case = Case { pattern: pattern.to_string(), text: text.to_string(), pos, api };
    let mut st = CaseStats::default();
    let mut rng = Rng::new(7);
    let with_builder = matches!(fault, Some(Fault::Builder(_)) | Some(Fault::BuilderOpts(..)));
    check_case(&re, &case, 64, with_builder, &mut rng, &mut st).map(|f| (f.class, f.detail, f.fault))
}

fn minimise(case: &Case, ast: Option<&Node>, f: &Found) -> (Case, Found) {
    let mut cur = case.clone();
    let mut cur_found = Found { class: f.class.clone(), detail: f.detail.clone(), fault: f.fault.clone() };
    let api = case.api;
    // text first
    loop {
        let mut progressed = false;
        for t in gen::text_shrinks(&cur.text) {
            let pos = if cur.pos <= t.len() && t.is_char_boundary(cur.pos) { cur.pos } else { 0 };
            if let Some((c, d, fl)) = class_of(&cur.pattern, &t, pos, api, &cur_found.fault) {
                if c == f.class {
                    cur.text = t;
                    cur.pos = pos;
                    cur_found = Found { class: c, detail: d, fault: fl };
                    progressed = true;
                    break;
                }
            }
        }
        if !progressed {
            break;
        }
    }
    if let Some(ast) = ast {
        let text = cur.text.clone();
        let pos = cur.pos;
        let fault = cur_found.fault.clone();
        let class = f.class.clone();
        let small = minimise_ast(ast, &|p: &str| class_of(p, &text, pos, api, &fault).map_or(false, |(c, _, _)| c == class));
        let p = small.render();
        if let Some((c, d, fl)) = class_of(&p, &cur.text, cur.pos, api, &cur_found.fault) {
            if c == f.class {
                cur.pattern = p;
                cur_found = Found { class: c, detail: d, fault: fl };
            }
        }
    }
    (cur, cur_found)
}

pub fn replay(case: &Value) -> Option<(String, String)> {
    let pattern = case["pattern"].as_str()?;
    let text = case["text"].as_str()?;
    let pos = case["pos"].as_u64()? as usize;
    let api = Api::parse(case["api"].as_str()?)?;
    let fault = Fault::from_json(&case["fault"]);
    class_of(pattern, text, pos, api, &fault).map(|(c, d, _)| (c, d))
}

fn gen_cfg(rng: &mut Rng) -> GenCfg {
    let mut cfg = GenCfg::swarm(rng);
    // conditionals are in scope for C07 (the epsilon-guard choice depends on their size facts)
    cfg.allow_cond = rng.chance(3, 4);
    cfg.allow_cond_in_atomic = true;
    cfg.allow_keepout_in_look = true;
    cfg
}

struct JobOut {
    st: CaseStats,
    cases: u64,
    vm_cases: u64,
    nontrivial_hashes: Vec<u64>,
    sample: Option<Value>,
}

fn job(seed: u64, i: u64, cap: usize) -> (JobOut, Option<Violation>) {
    let mut rng = Rng::new(derive(seed, i));
    let mut out = JobOut { st: CaseStats::default(), cases: 0, vm_cases: 0, nontrivial_hashes: Vec::new(), sample: None };
    let cfg = gen_cfg(&mut rng);
    for k in 0..4 {
        let (pattern, ast) = if k == 0 && i % 2 == 0 {
            (gen::CORPUS[((i / 2) as usize) % gen::CORPUS.len()].to_string(), None)
        } else {
            // a third of the generated patterns are aimed at the loop lowering (DESIGN 3.4)
            let ast = if k == 1 || (k == 2 && i % 3 == 0) { gen::gen_loop_pattern(&mut rng, &cfg) } else { gen::gen_pattern(&mut rng, &cfg) };
            (ast.render(), Some(ast))
        };
        let Some(re) = compile(&pattern) else { continue };
        if !re.verif_is_fancy() {
            // no VM, no limits: one cheap case to confirm that, then move on
            out.cases += 1;
            continue;
        }
        for _ in 0..3 {
            let text = gen::gen_text(&mut rng, 8);
            let api = match rng.below(6) {
                0 => Api::Find,
                1 => Api::IsMatch,
                _ => Api::Captures,
            };
            let pos = if api == Api::IsMatch || rng.chance(2, 3) { 0 } else { *rng.pick(&gen::boundaries(&text)) };
            let case = Case { pattern: pattern.clone(), text, pos, api };
            let with_builder = rng.chance(1, 8);
            let mut st = CaseStats { digest: out.st.digest, ..CaseStats::default() };
            let f = check_case(&re, &case, cap, with_builder, &mut rng, &mut st);
            out.cases += 1;
            out.vm_cases += 1;
            add_stats(&mut out.st, &st);
            if st.nontrivial {
                let mut h = Fnv::new();
                h.str(&case.pattern);
                h.str(&case.text);
                h.u64(case.pos as u64);
                out.nontrivial_hashes.push(h.0);
                if out.sample.is_none() {
                    out.sample = Some(json!({"pattern": case.pattern, "text": case.text, "pos": case.pos, "api": case.api.name(),
                        "fault_free_backtracks": st.backtracks, "abort_points_swept": st.ble_configured + st.so_configured}));
                }
            }
            if let Some(f) = f {
                let (mc, mf) = minimise(&case, ast.as_ref(), &f);
                let v = Violation::new(PROP, &mf.class, mf.detail.clone(), mc.to_json(&mf.fault));
                return (out, Some(v));
            }
        }
    }
    (out, None)
}

fn add_stats(a: &mut CaseStats, b: &CaseStats) {
    a.runs += b.runs;
    a.insns += b.insns;
    a.backtracks += b.backtracks;
    a.ble_configured += b.ble_configured;
    a.ble_fired += b.ble_fired;
    a.so_configured += b.so_configured;
    a.so_fired += b.so_fired;
    a.builder_configured += b.builder_configured;
    a.builder_fired += b.builder_fired;
    a.threshold_crossed += b.threshold_crossed;
    a.end_match += b.end_match;
    a.end_nomatch += b.end_nomatch;
    a.end_ble += b.end_ble;
    a.end_so += b.end_so;
    a.panicked += b.panicked;
    a.heavy_default_limit_hit += b.heavy_default_limit_hit;
    a.epsilon_guard_fired += b.epsilon_guard_fired;
    a.digest = b.digest;
}

/// Event digests per run for the determinism self-test.
pub fn digest(seed: u64, n: u64, workers: usize) -> Vec<u64> {
    let (res, _) = run_batch(n, workers, move |i| {
        let (o, v) = job(seed, i, 32);
        let mut d = Fnv(o.st.digest);
        d.u64(o.st.runs);
        d.u64(v.is_some() as u64);
        (d.0, None)
    });
    res.into_iter().map(|(_, d)| d).collect()
}

pub fn run(opts: &Opts) -> i32 {
    let t0 = now();
    let thorough = opts.tier == Tier::Thorough;
    let n = if opts.budget > 0 { opts.budget } else if thorough { 6_000_000 } else { 160_000 };
    let cap = if thorough { 256 } else { 64 };
    let seed = opts.seed;
    let mut st = CaseStats::default();
    let mut cases = 0;
    let mut vm_cases = 0;
    let mut nt = Distinct::new();
    let mut samples = Vec::new();
    let (jobs_done, viol) = run_batch_chunked(n, opts.workers, move |i| job(seed, i, cap), |_, r| {
        add_stats(&mut st, &r.st);
        cases += r.cases;
        vm_cases += r.vm_cases;
        nt.extend(r.nontrivial_hashes.iter());
        if samples.len() < 4 {
            if let Some(s) = &r.sample {
                samples.push(s.clone());
            }
        }
    });
    let wall = t0.elapsed().as_secs_f64();
    let mut code = 0;
    let mut violations = 0;
    if let Some((i, v)) = &viol {
        violations = 1;
        let path = write_replay(v, derive(seed, *i));
        let again = replay(&v.replay);
        if again.as_ref().map(|(c, _)| c.as_str()) != Some(v.class.as_str()) {
            eprintln!("harness error: C07 violation did not reproduce on replay: {:?} vs {}", again, v.class);
            return 2;
        }
        report_violation(v, &path);
        code = 1;
    }
    if samples.is_empty() {
        samples.push(json!("no non-trivial case in this run"));
    }
    if opts.write_evidence {
        let mut extra = serde_json::Map::new();
        extra.insert("cases".into(), json!(cases));
        extra.insert("cases_on_backtracking_vm".into(), json!(vm_cases));
        extra.insert("faults".into(), json!({
            "BLE@k_configured": st.ble_configured, "BLE@k_fired": st.ble_fired,
            "SO@d_configured": st.so_configured, "SO@d_fired": st.so_fired,
            "builder_limit_configured": st.builder_configured, "builder_limit_fired": st.builder_fired,
            "configured_not_fired": (st.ble_configured - st.ble_fired) + (st.so_configured - st.so_fired) + (st.builder_configured - st.builder_fired),
        }));
        extra.insert("logical_time".into(), json!({"vm_instructions": st.insns, "fault_free_backtracks": st.backtracks,
            "note": "no wall-clock exists in the system under test; simulated time is logical (VM instructions)"}));
        extra.insert("probes".into(), json!({
            "sweeps_crossing_exact_threshold": st.threshold_crossed,
            "fault_free_end_match": st.end_match, "fault_free_end_nomatch": st.end_nomatch,
            "fault_free_end_backtrack_limit": st.end_ble, "fault_free_end_stack_overflow": st.end_so,
            "fault_free_default_limit_hit_without_repeated_configuration": st.heavy_default_limit_hit,
            "fault_free_panicked_cases_skipped": st.panicked,
        }));
        extra.insert("runs_per_hour".into(), json!(((st.runs as f64) / wall.max(1e-9) * 3600.0) as u64));
        extra.insert("seeds".into(), json!(format!("derive({}, 0..{})", seed, jobs_done)));
        extra.insert("sweep_cap".into(), json!(cap));
        extra.insert("real_vs_stub".into(), json!({
            "real": ["fancy_regex public search API", "fancy_regex::vm::run", "regex-automata delegates", "RegexBuilder path (sampled): one builder re-used for several limits; the other options set before / after the limit"],
            "stubbed": ["limits overridden per run through the H2 hook (the shipped comparison lines execute)"],
        }));
        Evidence {
            property: PROP.into(),
            tier: opts.tier,
            seed,
            level: "fault_enumeration",
            evaluations: st.runs,
            distinct_nontrivial: nt.len() as u64,
            rule: format!("cases = (pattern from corpus or seeded grammar, text <= 8 chars (thorough tier: a third of the texts up to 14), char-boundary start, API; a third of the generated patterns from the loop-focused generator); per case every backtrack limit 0..N+1 and stack capacity 0..P+1 is injected when N,P <= {} (else boundary values + 8 seeded samples), builder path on 1/8 of cases; non-trivial = fault-free run takes >= 1 backtrack (a fault can fire); distinct by hash of (pattern,text,pos)", cap),
            samples,
            extra,
            assumptions: vec![
                "the fault-free answer is taken as the 'answer of an unlimited run' (C01/C02 not decided here)".into(),
                "hook counters are add-only lines next to the VM's own counters".into(),
            ],
            wall_s: wall,
            violations,
        }
        .write();
    }
    println!(
        "C07 {}: {} cases ({} on VM), {} executions, {} BLE + {} SO aborts fired, {} distinct non-trivial, {:.1}s",
        opts.tier.name(), cases, vm_cases, st.runs, st.ble_fired + st.builder_fired, st.so_fired, nt.len(), wall
    );
    code
}
