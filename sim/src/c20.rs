//! C20 — backtracking restores, and atomic commit preserves, exactly the right state.
//!
//! (a) seeded operation histories against the hooked `State` API, compared after every operation
//!     with the whole-copy model; capacity faults (`max_stack` tiny) injected;
//! (b) the same model shadowing real `vm::run` executions through the observer, with limit faults.

use crate::common::*;
use crate::gen::{self, GenCfg, Node};
use crate::rng::{derive, Fnv, Rng};
use crate::shadow::{compare, Model, Shadow, ShadowStats, ABORT_PAYLOAD};
use fancy_regex::verif::{self, LimitOverride, VerifState};
use serde_json::{json, Value};
use std::collections::HashSet;
use std::panic::{catch_unwind, AssertUnwindSafe};

pub const PROP: &str = "C20";

#[derive(Clone, Debug, PartialEq, Eq)]
pub enum Op {
    /// create alternative (pc, ix)
    Push(usize, usize),
    /// abandon the newest alternative
    Pop,
    Save(usize, usize),
    AuxPush(usize),
    AuxPop,
    /// stack_push(depth)
    EnterAtomic,
    /// stack_pop then backtrack_cut(popped)
    CommitAtomic,
    /// backtrack_cut(c)
    Cut(usize),
}

impl Op {
    fn to_json(&self) -> Value {
        match self {
            Op::Push(pc, ix) => json!(["push", pc, ix]),
            Op::Pop => json!(["pop"]),
            Op::Save(s, v) => json!(["save", s, v]),
            Op::AuxPush(v) => json!(["auxpush", v]),
            Op::AuxPop => json!(["auxpop"]),
            Op::EnterAtomic => json!(["enter"]),
            Op::CommitAtomic => json!(["commit"]),
            Op::Cut(c) => json!(["cut", c]),
        }
    }
    fn from_json(v: &Value) -> Option<Op> {
        let a = v.as_array()?;
        let n = |i: usize| a.get(i).and_then(|x| x.as_u64()).map(|x| x as usize);
        Some(match a.first()?.as_str()? {
            "push" => Op::Push(n(1)?, n(2)?),
            "pop" => Op::Pop,
            "save" => Op::Save(n(1)?, n(2)?),
            "auxpush" => Op::AuxPush(n(1)?),
            "auxpop" => Op::AuxPop,
            "enter" => Op::EnterAtomic,
            "commit" => Op::CommitAtomic,
            "cut" => Op::Cut(n(1)?),
            _ => return None,
        })
    }
}

#[derive(Clone, Debug)]
pub struct History {
    pub n_slots: usize,
    pub max_stack: usize,
    pub ops: Vec<Op>,
}

#[derive(Default, Clone, Debug)]
pub struct HistStats {
    pub ops: u64,
    pub commits: u64,
    pub capacity_faults: u64,
    pub nontrivial: bool,
    pub max_depth: usize,
    pub skipped_illegal: u64,
}

/// Is `op` legal for the API in the model's current state? (Legality is decided on the model.)
fn legal(op: &Op, m: &Model) -> bool {
    match op {
        Op::Push(..) | Op::Save(..) | Op::AuxPush(_) | Op::EnterAtomic => true,
        Op::Pop => m.depth() > 0,
        Op::AuxPop => !m.aux.is_empty(),
        Op::CommitAtomic => m.aux.last().map_or(false, |c| *c <= m.depth()),
        Op::Cut(c) => *c <= m.depth(),
    }
}

/// Execute a history against the real state and the model. Ops that are illegal in the model's
/// state are skipped (this only happens to shrunk histories). Returns the first mismatch.
pub fn run_history(h: &History) -> (HistStats, Option<(String, String)>) {
    let mut stats = HistStats::default();
    let r = catch_unwind(AssertUnwindSafe(|| {
        let mut real = VerifState::new(h.n_slots, h.max_stack);
        let mut m = Model::new(h.n_slots, h.max_stack);
        // per-level set of slots written while that level was the newest (for the non-trivial rule)
        let mut written: Vec<u32> = vec![0];
        let mut committed_below = false;
        for (i, op) in h.ops.iter().enumerate() {
            if !legal(op, &m) {
                stats.skipped_illegal += 1;
                continue;
            }
            stats.ops += 1;
            let mut mismatch: Option<(&'static str, String)> = None;
            match op {
                Op::Push(pc, ix) => {
                    let rok = real.push(*pc, *ix);
                    let mok = m.push(*pc, *ix, 0);
                    if !mok {
                        stats.capacity_faults += 1;
                    } else {
                        written.push(0);
                    }
                    if rok != mok {
                        mismatch = Some((
                            "push-capacity",
                            format!("push at depth {} capacity {}: real {} model {}", m.depth(), h.max_stack, rok, mok),
                        ));
                    }
                }
                Op::Pop => {
                    let before = m.slots.clone();
                    let r = real.pop();
                    let e = m.pop().unwrap();
                    written.pop();
                    if r != e {
                        mismatch = Some(("pop-return-mismatch", format!("pop returned {:?} expected {:?}", r, e)));
                    }
                    if committed_below && before != m.slots {
                        stats.nontrivial = true;
                    }
                }
                Op::Save(s, v) => {
                    real.save(*s, *v);
                    m.save(*s, *v);
                    *written.last_mut().unwrap() |= 1u32 << (s % 32);
                }
                Op::AuxPush(v) => {
                    real.stack_push(*v);
                    m.aux.push(*v);
                }
                Op::AuxPop => {
                    let r = real.stack_pop();
                    let e = m.aux.pop().unwrap();
                    if r != e {
                        mismatch = Some(("stackpop-return-mismatch", format!("stack_pop returned {} expected {}", r, e)));
                    }
                }
                Op::EnterAtomic => {
                    let d = real.depth();
                    if d != m.depth() {
                        mismatch = Some(("depth-mismatch", format!("depth() returned {} expected {}", d, m.depth())));
                    }
                    real.stack_push(m.depth());
                    let d = m.depth();
                    m.aux.push(d);
                }
                Op::CommitAtomic | Op::Cut(_) => {
                    let c = match op {
                        Op::CommitAtomic => {
                            let r = real.stack_pop();
                            let e = m.aux.pop().unwrap();
                            if r != e {
                                mismatch = Some(("stackpop-return-mismatch", format!("stack_pop returned {} expected {}", r, e)));
                            }
                            e
                        }
                        Op::Cut(c) => *c,
                        _ => unreachable!(),
                    };
                    stats.commits += 1;
                    real.backtrack_cut(c);
                    let removed = m.depth() - c;
                    if removed >= 1 {
                        committed_below = true;
                    }
                    if removed >= 2 {
                        // same slot written at two or more of the discarded levels?
                        let mut seen = 0u32;
                        for w in &written[c + 1..] {
                            if seen & w != 0 {
                                stats.nontrivial = true;
                            }
                            seen |= w;
                        }
                    }
                    let merged = written[c..].iter().fold(0, |a, b| a | b);
                    written.truncate(c + 1);
                    written[c] = merged;
                    m.cut(c);
                }
            }
            if m.depth() > stats.max_depth {
                stats.max_depth = m.depth();
            }
            if mismatch.is_none() {
                mismatch = compare(&real.view(), &m);
                // reads through the API must agree with the view
                if mismatch.is_none() {
                    for s in 0..h.n_slots {
                        if real.get(s) != m.slots[s] {
                            mismatch = Some(("slot-mismatch", format!("get({}) = {} model {}", s, real.get(s), m.slots[s])));
                        }
                    }
                }
            }
            if let Some((class, detail)) = mismatch {
                return Some((class.to_string(), format!("op #{} {:?}: {}", i, op, detail)));
            }
        }
        None
    }));
    match r {
        Ok(v) => (stats, v),
        Err(p) => (stats, Some(("panic".to_string(), format!("State operation panicked: {}", panic_message(p))))),
    }
}

/// Seeded history generator. Weights vary per run (swarm); only API-legal histories are produced.
fn advance(m: &mut Model, op: &Op) {
    match op {
        Op::Push(pc, ix) => {
            m.push(*pc, *ix, 0);
        }
        Op::Pop => {
            m.pop();
        }
        Op::Save(s, v) => m.save(*s, *v),
        Op::AuxPush(v) => m.aux.push(*v),
        Op::AuxPop => {
            m.aux.pop();
        }
        Op::EnterAtomic => {
            let d = m.depth();
            m.aux.push(d)
        }
        Op::CommitAtomic => {
            let c = m.aux.pop().unwrap();
            m.cut(c)
        }
        Op::Cut(c) => m.cut(*c),
    }
}

/// Large commits: one atomic group (sometimes two nested) spanning 8..40 alternatives, each of
/// which writes most slots, then the commit, then abandoning the alternatives older than the group:
/// the values restored there are the ones a commit that merges dozens of undo entries has to have
/// kept. Random walks over the operation alphabet almost never build a commit this large.
fn gen_deep_commit_history(rng: &mut Rng) -> History {
    let n_slots = rng.range(3, 6);
    let mut ops = Vec::new();
    let val = |rng: &mut Rng| rng.below(3);
    for s in 0..n_slots {
        if rng.chance(2, 3) {
            ops.push(Op::Save(s, val(rng)));
        }
    }
    let outer = rng.range(1, 3);
    for _ in 0..outer {
        ops.push(Op::Push(rng.below(4), rng.below(4)));
        for s in 0..n_slots {
            if rng.chance(1, 2) {
                ops.push(Op::Save(s, val(rng)));
            }
        }
    }
    ops.push(Op::EnterAtomic);
    let levels = rng.range(8, 40);
    let nested_at = if rng.chance(1, 3) { Some(rng.below(levels)) } else { None };
    for l in 0..levels {
        if Some(l) == nested_at {
            ops.push(Op::EnterAtomic);
        }
        ops.push(Op::Push(rng.below(4), rng.below(4)));
        for s in 0..n_slots {
            if rng.chance(3, 4) {
                ops.push(Op::Save(s, val(rng)));
            }
        }
        if rng.chance(1, 6) {
            ops.push(Op::Pop);
        }
    }
    if nested_at.is_some() {
        ops.push(Op::CommitAtomic);
        if rng.chance(1, 2) {
            ops.push(Op::Push(rng.below(4), rng.below(4)));
            ops.push(Op::Save(rng.below(n_slots), val(rng)));
        }
    }
    ops.push(Op::CommitAtomic);
    for s in 0..n_slots {
        if rng.chance(1, 3) {
            ops.push(Op::Save(s, val(rng)));
        }
    }
    for _ in 0..outer {
        ops.push(Op::Pop);
    }
    // only histories legal for the API (decided on the model, as everywhere)
    let mut m = Model::new(n_slots, 1_000_000);
    let mut legal_ops = Vec::new();
    for op in ops {
        if legal(&op, &m) {
            advance(&mut m, &op);
            legal_ops.push(op);
        }
    }
    History { n_slots, max_stack: 1_000_000, ops: legal_ops }
}

/// Wide and long histories: far more slots than the property's own bound of three (a pattern with
/// thirty groups has more than sixty), with the writes concentrated on a handful of slots that
/// include the first, the last and the ones next to multiples of 64 — where any per-slot bookkeeping
/// packed into machine words (bitmaps, small-vector spill-over) changes representation — and two to
/// five times as many operations as the ordinary histories.
fn gen_wide_history(rng: &mut Rng) -> History {
    let n_slots = *rng.pick(&[8usize, 17, 33, 63, 64, 65, 66, 127, 128, 129, 130, 200]);
    let mut hot: Vec<usize> = vec![0, n_slots - 1];
    for b in [63usize, 64, 65, 127, 128] {
        if b < n_slots && rng.chance(2, 3) {
            hot.push(b);
        }
    }
    for _ in 0..rng.range(1, 4) {
        hot.push(rng.below(n_slots));
    }
    let max_stack = if rng.chance(1, 4) { rng.range(3, 12) } else { 1_000_000 };
    let len = rng.range(40, 300);
    let mut w = [6usize, 4, 10, 2, 2, 3, 3, 1];
    for x in w.iter_mut() {
        if rng.chance(1, 5) {
            *x = 0;
        } else if rng.chance(1, 4) {
            *x *= 3;
        }
    }
    w[0] = w[0].max(4);
    w[2] = w[2].max(4);
    let mut m = Model::new(n_slots, max_stack);
    let mut ops = Vec::new();
    let mut tries = 0;
    while ops.len() < len && tries < len * 10 {
        tries += 1;
        let op = match rng.weighted(&w) {
            0 => Op::Push(rng.below(4), rng.below(4)),
            1 => Op::Pop,
            2 => {
                let slot = if rng.chance(5, 6) { *rng.pick(&hot) } else { rng.below(n_slots) };
                Op::Save(slot, rng.below(5))
            }
            3 => Op::AuxPush(rng.below(3)),
            4 => Op::AuxPop,
            5 => Op::EnterAtomic,
            6 => Op::CommitAtomic,
            _ => Op::Cut(rng.below(m.depth() + 1)),
        };
        if !legal(&op, &m) {
            continue;
        }
        advance(&mut m, &op);
        ops.push(op);
    }
    History { n_slots, max_stack, ops }
}

pub fn gen_history(rng: &mut Rng, thorough: bool) -> History {
    if rng.chance(1, 12) {
        return gen_deep_commit_history(rng);
    }
    if rng.chance(1, 16) {
        return gen_wide_history(rng);
    }
    // the property's own bound is 3 slots and 3 values; the thorough tier also varies the width
    let n_slots = if thorough && rng.chance(1, 3) { rng.range(1, 5) } else { 3 };
    let max_stack = if rng.chance(1, 3) { rng.range(2, 8) } else { 1_000_000 };
    let len = rng.range(5, if thorough { 120 } else { 60 });
    // swarm weights: push pop save auxpush auxpop enter commit cut
    let mut w = [6usize, 4, 8, 2, 2, 3, 3, 1];
    for x in w.iter_mut() {
        if rng.chance(1, 4) {
            *x = 0;
        } else if rng.chance(1, 4) {
            *x *= 3;
        }
    }
    if w[0] == 0 {
        w[0] = 4;
    }
    if w[2] == 0 {
        w[2] = 4;
    }
    let mut m = Model::new(n_slots, max_stack);
    let mut ops = Vec::new();
    let mut tries = 0;
    while ops.len() < len && tries < len * 10 {
        tries += 1;
        let op = match rng.weighted(&w) {
            0 => Op::Push(rng.below(4), rng.below(4)),
            1 => Op::Pop,
            2 => Op::Save(rng.below(n_slots), rng.below(3)),
            3 => Op::AuxPush(rng.below(3)),
            4 => Op::AuxPop,
            5 => Op::EnterAtomic,
            6 => Op::CommitAtomic,
            _ => Op::Cut(rng.below(m.depth() + 1)),
        };
        if !legal(&op, &m) {
            continue;
        }
        // advance the model so that legality of later ops is known
        advance(&mut m, &op);
        ops.push(op);
    }
    History {
        n_slots,
        max_stack,
        ops,
    }
}

/// Long quiet periods: one slot is written, then left alone for N branch operations (creating and
/// abandoning alternatives, with other slots written in between), then written inside an alternative
/// that is abandoned; N sweeps a window around multiples of 2^8 and 2^16. Any bookkeeping kept in a
/// fixed-width counter or stamp (an epoch, a generation number) wraps exactly there.
pub fn wrap_window_histories() -> Vec<History> {
    let mut out = Vec::new();
    for &w in &[256usize, 65_536] {
        for k in 1..=2usize {
            for delta in -6i64..=6 {
                let n = (w * k) as i64 + delta;
                if n < 4 {
                    continue;
                }
                let mut ops = vec![Op::Save(0, 1), Op::Push(1, 1), Op::Save(1, 2)];
                // n branch operations in total between the two writes of slot 0 (the Push above is
                // the first, the Push below the last)
                let mut done = 1i64;
                let mut depth = 1usize;
                let mut t = 0usize;
                while done < n - 1 {
                    if depth > 1 && (t % 3 == 2 || depth > 6) {
                        ops.push(Op::Pop);
                        depth -= 1;
                    } else {
                        ops.push(Op::Push(t % 4, t % 3));
                        depth += 1;
                        if t % 5 == 0 {
                            ops.push(Op::Save(1 + t % 2, t % 3));
                        }
                    }
                    done += 1;
                    t += 1;
                }
                ops.push(Op::Push(2, 2));
                ops.push(Op::Save(0, 2));
                ops.push(Op::Pop);
                while depth > 0 {
                    ops.push(Op::Pop);
                    depth -= 1;
                }
                out.push(History { n_slots: 3, max_stack: 1_000_000, ops });
            }
        }
    }
    out
}

fn history_json(h: &History) -> Value {
    json!({
        "kind": "state-history",
        "n_slots": h.n_slots,
        "max_stack": h.max_stack,
        "ops": h.ops.iter().map(|o| o.to_json()).collect::<Vec<_>>(),
    })
}

fn history_from_json(v: &Value) -> Option<History> {
    Some(History {
        n_slots: v["n_slots"].as_u64()? as usize,
        max_stack: v["max_stack"].as_u64()? as usize,
        ops: v["ops"].as_array()?.iter().map(Op::from_json).collect::<Option<Vec<_>>>()?,
    })
}

/// Drop operations while the same violation class persists.
fn minimise_history(h: &History, class: &str) -> History {
    let mut cur = h.clone();
    // cut the tail after the failing op first
    loop {
        let mut progressed = false;
        let mut i = cur.ops.len();
        while i > 0 {
            i -= 1;
            let mut cand = cur.clone();
            cand.ops.remove(i);
            if let (_, Some((c, _))) = run_history(&cand) {
                if c == class {
                    cur = cand;
                    progressed = true;
                }
            }
        }
        if !progressed {
            break;
        }
    }
    cur
}

// ------------------------------------------------------------------------------------------------
// (b) program level

#[derive(Clone, Debug)]
pub struct ProgCase {
    pub pattern: String,
    pub text: String,
    pub pos: usize,
    pub fault: Option<(String, usize)>, // ("ble"|"so", value)
}

impl ProgCase {
    pub fn to_json(&self) -> Value {
        json!({
            "kind": "vm-shadow",
            "pattern": self.pattern,
            "text": self.text,
            "pos": self.pos,
            "fault": self.fault.as_ref().map(|(k, v)| json!([k, v])),
        })
    }
    pub fn from_json(v: &Value) -> Option<ProgCase> {
        Some(ProgCase {
            pattern: v["pattern"].as_str()?.to_string(),
            text: v["text"].as_str()?.to_string(),
            pos: v["pos"].as_u64()? as usize,
            fault: match &v["fault"] {
                Value::Array(a) => Some((a[0].as_str()?.to_string(), a[1].as_u64()? as usize)),
                _ => None,
            },
        })
    }
}

pub struct ProgOutcome {
    pub stats: ShadowStats,
    pub violation: Option<(String, String)>,
    pub leaked: Option<String>,
    pub run: Option<verif::RunStats>,
    pub compiled: bool,
    pub fancy: bool,
}

/// Run one search under the shadow observer (model + discipline checks), with an optional limit
/// fault. The search API used is captures_from_pos (the full slot vector is returned).
pub fn run_prog_case(case: &ProgCase, progress: bool) -> ProgOutcome {
    let mut out = ProgOutcome {
        stats: ShadowStats::default(),
        violation: None,
        leaked: None,
        run: None,
        compiled: false,
        fancy: false,
    };
    let Some(re) = compile(&case.pattern) else {
        return out;
    };
    out.compiled = true;
    out.fancy = re.verif_is_fancy();
    if !out.fancy {
        return out;
    }
    let (mut shadow, res) = Shadow::new(true, progress);
    // commit brackets: marker groups named zbN / zeN around constructs that commit
    let names: Vec<Option<&str>> = re.capture_names().collect();
    let mut brackets = Vec::new();
    for (gb, n) in names.iter().enumerate() {
        if let Some(id) = n.and_then(|n| n.strip_prefix("zb")).and_then(|d| d.parse::<usize>().ok()) {
            let want = format!("ze{}", id);
            if let Some(ge) = names.iter().position(|m| *m == Some(want.as_str())) {
                brackets.push((id, gb, ge));
            }
        }
    }
    if !brackets.is_empty() {
        shadow.set_brackets(brackets);
    }
    verif::set_observer(Some(Box::new(shadow)));
    verif::reset_run_ordinal();
    verif::record_run_stats(true);
    let lim = match &case.fault {
        Some((k, v)) if k == "ble" => LimitOverride { backtrack_limit: Some(*v), max_stack: None },
        Some((_, v)) => LimitOverride { backtrack_limit: None, max_stack: Some(*v) },
        None => LimitOverride::default(),
    };
    verif::set_fault_plan(vec![(0, lim)]);
    budget::install();
    budget::arm(budget::DEFAULT_INSNS, u64::MAX);
    let r = catch_unwind(AssertUnwindSafe(|| re.captures_from_pos(&case.text, case.pos).map(|c| c.map(|c| groups_of(&c)))));
    budget::disarm();
    verif::set_fault_plan(Vec::new());
    verif::set_observer(None);
    let runs = verif::take_run_stats();
    verif::record_run_stats(false);
    out.run = runs.first().copied();
    let res = res.borrow().clone();
    out.stats = res.stats;
    out.leaked = res.leaked_cond_marker;
    out.violation = res.found;
    if out.violation.is_none() && out.leaked.is_none() {
        // The statement at the level of what the caller sees ("Captures of atomic/look-around
        // patterns"): a negative look-around ends either by its body failing (every alternative
        // of the body abandoned) or by its failure being committed (a backtrack follows); in both
        // cases every capture position written inside it reverts. So a group that lies inside a
        // negative look-around is unset in whatever the search returns.
        if let (Ok(Ok(Some(groups))), Some(inside)) = (&r, neg_look_groups(&case.pattern)) {
            if !inside.is_empty() {
                out.stats.neglook_group_checks += 1;
            }
            for g in inside {
                if let Some(Some(span)) = groups.get(g) {
                    out.violation = Some((
                        "neglook-capture-survives".to_string(),
                        format!(
                            "group {} lies inside a negative look-around of /{}/ and is reported as {:?} on {:?} from {}: capture positions written inside a negative look-around must have reverted when it ended",
                            g, case.pattern, span, case.text, case.pos
                        ),
                    ));
                    break;
                }
            }
        }
    }
    if out.violation.is_none() {
        if let Err(p) = r {
            let msg = panic_message(p);
            if msg != ABORT_PAYLOAD {
                // a panic inside the search is C05's business, unless a State operation blew up
                // in a way the model says is legal — those show as mismatches before the panic.
                // Record nothing here.
                let _ = msg;
            }
        }
    }
    out
}

/// Numbers of the capture groups that lie inside a negative look-around, from the pattern text
/// (None when the scanner meets syntax it does not know: the check is skipped then).
pub fn neg_look_groups(pattern: &str) -> Option<Vec<usize>> {
    let b: Vec<char> = pattern.chars().collect();
    let mut i = 0;
    let mut open: Vec<bool> = Vec::new(); // per open parenthesis: is it a negative look-around
    let mut group = 0;
    let mut out = Vec::new();
    while i < b.len() {
        match b[i] {
            '\\' => i += 2,
            '[' => {
                // character class: up to the matching ']' (nested classes and escapes skipped)
                let mut depth = 1;
                i += 1;
                if b.get(i) == Some(&'^') {
                    i += 1;
                }
                if b.get(i) == Some(&']') {
                    i += 1;
                }
                while i < b.len() && depth > 0 {
                    match b[i] {
                        '\\' => i += 1,
                        '[' => depth += 1,
                        ']' => depth -= 1,
                        _ => {}
                    }
                    i += 1;
                }
                if depth != 0 {
                    return None;
                }
            }
            '(' => {
                let rest: String = b[i + 1..b.len().min(i + 4)].iter().collect();
                if rest.starts_with("?(") {
                    // conditional: its own parenthesis and the one around the condition
                    open.push(false);
                    open.push(false);
                    i += 3;
                    continue;
                }
                let neg = rest.starts_with("?!") || rest.starts_with("?<!");
                let capturing = if !rest.starts_with('?') {
                    true
                } else if rest.starts_with("?<=") || rest.starts_with("?<!") {
                    false
                } else {
                    rest.starts_with("?<") || rest.starts_with("?P<")
                };
                if capturing {
                    group += 1;
                    if open.iter().any(|n| *n) {
                        out.push(group);
                    }
                }
                open.push(neg);
                i += 1;
            }
            ')' => {
                open.pop()?;
                i += 1;
            }
            _ => i += 1,
        }
    }
    if !open.is_empty() {
        return None;
    }
    Some(out)
}

fn gen_cfg_for_c20(rng: &mut Rng) -> GenCfg {
    let mut cfg = GenCfg::swarm(rng);
    cfg.fancy_bias = rng.range(4, 10);
    cfg.allow_atomic = true;
    cfg.allow_look = true;
    // known finding (conditional's false path leaks its marker): a third of the runs do put
    // conditionals into atomic contexts; a run that consumes a leaked marker is then recognised by
    // the finding's call-site signature (an EndAtomic popping the marker of a *conditional's*
    // BeginAtomic), counted, and not checked further; everything up to that point, and every other
    // kind of divergence, is still checked and reported
    cfg.allow_cond_in_atomic = rng.chance(1, 3);
    cfg
}

pub const LEAK_WITNESSES: &[(&str, &str)] = &[
    (r"(?>b*?(?(a)x|))c", "bc"),
    (r"(?>(?:bc|b)(?(a)x|))c", "bc"),
];

pub const KNOWN_KEY_LEAK: &str = "conditional-false-path-leaks-atomic-marker";

#[derive(Default)]
struct JobOut {
    hist: u64,
    hist_ops: u64,
    hist_commits: u64,
    hist_cap_faults: u64,
    hist_nontrivial_hashes: Vec<u64>,
    hist_max_depth: usize,
    prog_cases: u64,
    prog_fancy: u64,
    prog_faulted: u64,
    prog_fault_fired: u64,
    prog_nontrivial_hashes: Vec<u64>,
    known_leak_hits: u64,
    bracketed_patterns: u64,
    shadow: ShadowStats,
    sample: Option<Value>,
}

fn add_shadow(a: &mut ShadowStats, b: &ShadowStats) {
    a.runs += b.runs;
    a.insns += b.insns;
    a.ops += b.ops;
    a.pops += b.pops;
    a.cuts += b.cuts;
    a.cuts_nonempty += b.cuts_nonempty;
    a.cuts_multi += b.cuts_multi;
    a.rollback_after_cut += b.rollback_after_cut;
    a.atomic_commits_checked += b.atomic_commits_checked;
    a.neglook_unwinds_checked += b.neglook_unwinds_checked;
    a.neglook_group_checks += b.neglook_group_checks;
    a.capture_reads_checked += b.capture_reads_checked;
    a.commit_brackets_checked += b.commit_brackets_checked;
    a.epsilon_guard_fired += b.epsilon_guard_fired;
    a.max_depth = a.max_depth.max(b.max_depth);
    a.max_aux = a.max_aux.max(b.max_aux);
    a.configs_checked += b.configs_checked;
    a.model_capped += b.model_capped;
    a.progress_capped += b.progress_capped;
}

/// Hand-written patterns with commit brackets (marker groups zbN / zeN around a construct that
/// commits): nested and tail-position atomic groups, possessive loops, look-arounds whose bodies
/// leave alternatives behind, committing constructs inside loops.
const BRACKET_CORPUS: &[&str] = &[
    r"(?<zb0>)(?>(?>(?:a|ab)(?!z)))(?<ze0>)c",
    r"^(?<zb0>)(?>x(?>(a|aa)\2))(?<ze0>)b",
    r"(?<zb0>)(?:a|ab)++(?<ze0>)c",
    r"(?<zb0>)(?!(a|ab)c)(?<ze0>)\w+",
    r"(?:(?<zb0>)(?>b*?)(?<ze0>)c)+",
    r"x?(?<zb0>)(?!(a|b)+c)(?<ze0>)\w",
    r"^(?<zb0>)(?>x(?:(a|ab)(?!z))?+)(?<ze0>)c",
    r"(?<zb0>)(?>(?<zb1>)(?>a+?|b)(?<ze1>)(?:b|bc)?)(?<ze0>)c\b",
    r"(?<zb0>)(?<!a|-)(?<ze0>)(?<zb1>)(?>\w*?\d)(?<ze1>)-",
    r"(?:(?<zb0>)(?!(?:a|b)+?c)(?<ze0>)[ab]){2,}(?!a)",
];

/// One job = one seed: a block of histories and a block of shadowed VM runs.
fn job(seed: u64, i: u64, thorough: bool, leak_listed: bool) -> (JobOut, Option<Violation>) {
    let mut out = JobOut::default();
    let mut rng = Rng::new(derive(seed, i));
    // (a) histories
    for _ in 0..200 {
        let h = gen_history(&mut rng, thorough);
        let (st, v) = run_history(&h);
        out.hist += 1;
        out.hist_ops += st.ops;
        out.hist_commits += st.commits;
        out.hist_cap_faults += st.capacity_faults;
        out.hist_max_depth = out.hist_max_depth.max(st.max_depth);
        if st.nontrivial {
            let mut f = Fnv::new();
            f.str(&format!("{:?}", h.ops));
            out.hist_nontrivial_hashes.push(f.0);
            if out.sample.is_none() {
                out.sample = Some(history_json(&h));
            }
        }
        if let Some((class, detail)) = v {
            let min = minimise_history(&h, &class);
            let (_, again) = run_history(&min);
            let detail = again.map(|(_, d)| d).unwrap_or(detail);
            return (out, Some(Violation::new(PROP, &class, detail, history_json(&min))));
        }
    }
    // (b) shadowed VM runs
    let cfg = gen_cfg_for_c20(&mut rng);
    let n_patterns = 6;
    for k in 0..n_patterns {
        let (pattern, _ast) = if k == 0 {
            (gen::CORPUS[(i as usize) % gen::CORPUS.len()].to_string(), None)
        } else {
            let ast = gen::gen_pattern(&mut rng, &cfg);
            let pattern = ast.render();
            // harness self-check: the text scanner behind the negative-look-around capture rule
            // must agree with the generator's own knowledge of the pattern it produced
            if let Some(scanned) = neg_look_groups(&pattern) {
                let known = ast.facts().neg_look_groups;
                if scanned != known {
                    panic!("harness error: neg_look_groups(/{}/) = {:?}, the generator says {:?}", pattern, scanned, known);
                }
            }
            (pattern, Some(ast))
        };
        // variants: the pattern itself and, for half of the generated ones that have a construct
        // that commits, a copy with commit brackets (marker groups) around some of them
        let mut variants: Vec<(String, usize)> = vec![(pattern.clone(), 4)];
        if let Some(ast) = &_ast {
            if rng.chance(1, 2) {
                let mut ids = 0;
                let marked = ast.with_commit_brackets(&mut rng, 2, &mut ids);
                if ids > 0 {
                    variants.push((marked.render(), 3));
                }
            }
        } else {
            variants.push((BRACKET_CORPUS[(i as usize / gen::CORPUS.len()) % BRACKET_CORPUS.len()].to_string(), 3));
        }
        for (pattern, n_texts) in variants {
        if pattern.contains("(?<zb") {
            out.bracketed_patterns += 1;
        }
        for _ in 0..n_texts {
            let text = gen::gen_text(&mut rng, 8);
            let bounds = gen::boundaries(&text);
            let pos = if rng.chance(3, 4) { 0 } else { *rng.pick(&bounds) };
            let mut case = ProgCase { pattern: pattern.clone(), text, pos, fault: None };
            let o = run_prog_case(&case, false);
            if !o.compiled {
                break;
            }
            out.prog_cases += 1;
            if !o.fancy {
                break;
            }
            out.prog_fancy += 1;
            add_shadow(&mut out.shadow, &o.stats);
            if o.leaked.is_some() && o.violation.is_none() {
                out.known_leak_hits += 1;
            }
            if let Some(v) = check_prog_outcome(&case, &o, leak_listed) {
                return (out, Some(v));
            }
            if o.stats.cuts_nonempty > 0 || o.stats.neglook_unwinds_checked > 0 {
                let mut f = Fnv::new();
                f.str(&case.pattern);
                f.str(&case.text);
                f.u64(case.pos as u64);
                out.prog_nontrivial_hashes.push(f.0);
            }
            // limit faults: an abort must not be preceded by any divergence either
            if let Some(rs) = o.run {
                let n = rs.backtracks as usize;
                let p = rs.peak_depth;
                let mut faults = Vec::new();
                if n > 0 {
                    faults.push(("ble".to_string(), rng.below(n)));
                }
                if p > 0 {
                    faults.push(("so".to_string(), rng.below(p)));
                }
                for f in faults {
                    case.fault = Some(f);
                    let o2 = run_prog_case(&case, false);
                    out.prog_faulted += 1;
                    add_shadow(&mut out.shadow, &o2.stats);
                    if let Some(rs2) = o2.run {
                        if matches!(rs2.end, verif::EndReason::BacktrackLimit | verif::EndReason::StackOverflow) {
                            out.prog_fault_fired += 1;
                        }
                    }
                    if o2.leaked.is_some() && o2.violation.is_none() {
                        out.known_leak_hits += 1;
                    }
                    if let Some(v) = check_prog_outcome(&case, &o2, leak_listed) {
                        return (out, Some(v));
                    }
                }
            }
        }
        }
    }
    (out, None)
}

fn check_prog_outcome(case: &ProgCase, o: &ProgOutcome, leak_listed: bool) -> Option<Violation> {
    if let Some((class, detail)) = &o.violation {
        let min = minimise_prog(case, class);
        return Some(Violation::new(PROP, class, detail.clone(), min.to_json()));
    }
    if let Some(d) = &o.leaked {
        if leak_listed && case.pattern.contains("(?(") {
            // the listed finding, recognised by its call-site signature (the shape
            // compile_conditional emits, in a pattern that has a conditional at all)
            return None;
        }
        // not (or no longer) listed as an open finding: report it
        let min = minimise_prog(case, "cond-marker-leak");
        return Some(Violation::new(PROP, "cond-marker-leak", d.clone(), min.to_json()));
    }
    None
}

fn prog_class(case: &ProgCase) -> Option<String> {
    let o = run_prog_case(case, false);
    if let Some((c, _)) = o.violation {
        return Some(c);
    }
    if o.leaked.is_some() {
        return Some("cond-marker-leak".to_string());
    }
    None
}

fn minimise_prog(case: &ProgCase, class: &str) -> ProgCase {
    let mut cur = case.clone();
    loop {
        let mut progressed = false;
        for t in gen::text_shrinks(&cur.text) {
            let mut cand = cur.clone();
            cand.text = t;
            if cand.pos > cand.text.len() || !cand.text.is_char_boundary(cand.pos) {
                cand.pos = 0;
            }
            if prog_class(&cand).as_deref() == Some(class) {
                cur = cand;
                progressed = true;
                break;
            }
        }
        if cur.fault.is_some() {
            let mut cand = cur.clone();
            cand.fault = None;
            if prog_class(&cand).as_deref() == Some(class) {
                cur = cand;
                progressed = true;
            }
        }
        if !progressed {
            break;
        }
    }
    cur
}

/// Shrink a pattern AST while `still` holds (shared by the other checks too).
pub fn minimise_ast(ast: &Node, still: &dyn Fn(&str) -> bool) -> Node {
    let mut cur = ast.clone();
    let mut budget = 400;
    loop {
        let mut progressed = false;
        for cand in cur.shrinks() {
            if budget == 0 {
                return cur;
            }
            budget -= 1;
            let p = cand.render();
            if p.len() < cur.render().len() && still(&p) {
                cur = cand;
                progressed = true;
                break;
            }
        }
        if !progressed {
            return cur;
        }
    }
}

/// Event digests per job for the determinism self-test.
pub fn digest(seed: u64, n: u64, workers: usize) -> Vec<u64> {
    let (res, _) = run_batch(n, workers, move |i| {
        let (o, v) = job(seed, i, false, true);
        let mut d = Fnv::new();
        d.u64(o.hist_ops);
        d.u64(o.hist_commits);
        d.u64(o.hist_cap_faults);
        d.u64(o.shadow.insns);
        d.u64(o.shadow.ops);
        d.u64(o.shadow.pops);
        d.u64(o.shadow.cuts);
        d.u64(o.prog_fault_fired);
        for h in &o.hist_nontrivial_hashes {
            d.u64(*h);
        }
        for h in &o.prog_nontrivial_hashes {
            d.u64(*h);
        }
        d.u64(v.is_some() as u64);
        (d.0, None)
    });
    res.into_iter().map(|(_, d)| d).collect()
}

pub fn replay(case: &Value) -> Option<(String, String)> {
    match case["kind"].as_str() {
        Some("state-history") => {
            let h = history_from_json(case)?;
            run_history(&h).1
        }
        Some("vm-shadow") => {
            let c = ProgCase::from_json(case)?;
            let o = run_prog_case(&c, false);
            if let Some(v) = o.violation {
                return Some(v);
            }
            o.leaked.map(|d| ("cond-marker-leak".to_string(), d))
        }
        _ => None,
    }
}

pub fn run(opts: &Opts) -> i32 {
    let t0 = now();
    let thorough = opts.tier == Tier::Thorough;
    let n = if opts.budget > 0 { opts.budget } else if thorough { 1_200_000 } else { 40_000 };
    let seed = opts.seed;
    let known = load_known_findings();

    // fixed witnesses of the recorded finding
    let mut known_lines = Vec::new();
    for (p, t) in LEAK_WITNESSES {
        let case = ProgCase { pattern: p.to_string(), text: t.to_string(), pos: 0, fault: None };
        let o = run_prog_case(&case, false);
        if let Some((class, detail)) = o.violation {
            let v = Violation::new(PROP, &class, detail, case.to_json());
            let path = write_replay(&v, seed);
            report_violation(&v, &path);
            return 1;
        }
        if let Some(d) = o.leaked {
            match is_known(&known, PROP, KNOWN_KEY_LEAK) {
                Some(k) => known_lines.push(format!(
                    "KNOWN-FINDING: property={} {} [witness /{}/ on {:?}: {}]",
                    PROP, k.what, p, t, d
                )),
                None => {
                    let v = Violation::new(PROP, "cond-marker-leak", d, case.to_json());
                    let path = write_replay(&v, seed);
                    report_violation(&v, &path);
                    return 1;
                }
            }
        }
    }
    for l in &known_lines {
        println!("{}", l);
    }

    // wrap-window histories (52 long ones; a few million operations in all)
    let mut wrap_ops = 0u64;
    for h in wrap_window_histories() {
        let (st, v) = run_history(&h);
        wrap_ops += st.ops;
        if let Some((class, detail)) = v {
            // not minimised: the length is the point
            let v = Violation::new(PROP, &class, format!("{} (history of {} operations with a quiet period around a power of two)", detail, h.ops.len()), history_json(&h));
            let path = write_replay(&v, seed);
            report_violation(&v, &path);
            return 1;
        }
    }
    let leak_listed = is_known(&known, PROP, KNOWN_KEY_LEAK).is_some();
    let mut agg = JobOut::default();
    let mut hist_nt = Distinct::new();
    let mut prog_nt = Distinct::new();
    let mut samples = Vec::new();
    let (jobs_done, viol) = run_batch_chunked(n, opts.workers, move |i| job(seed, i, thorough, leak_listed), |_, r| {
        agg.hist += r.hist;
        agg.hist_ops += r.hist_ops;
        agg.hist_commits += r.hist_commits;
        agg.hist_cap_faults += r.hist_cap_faults;
        agg.hist_max_depth = agg.hist_max_depth.max(r.hist_max_depth);
        agg.prog_cases += r.prog_cases;
        agg.prog_fancy += r.prog_fancy;
        agg.prog_faulted += r.prog_faulted;
        agg.prog_fault_fired += r.prog_fault_fired;
        agg.known_leak_hits += r.known_leak_hits;
        agg.bracketed_patterns += r.bracketed_patterns;
        add_shadow(&mut agg.shadow, &r.shadow);
        hist_nt.extend(r.hist_nontrivial_hashes.iter());
        prog_nt.extend(r.prog_nontrivial_hashes.iter());
        if samples.len() < 3 {
            if let Some(s) = &r.sample {
                samples.push(s.clone());
            }
        }
    });
    let wall = t0.elapsed().as_secs_f64();
    let mut violations = 0;
    let mut code = 0;
    if let Some((i, v)) = &viol {
        violations = 1;
        let path = write_replay(v, derive(seed, *i));
        // replay in-process once more from the file content: must reproduce the same class
        let again = replay(&v.replay);
        if again.as_ref().map(|(c, _)| c.as_str()) != Some(v.class.as_str()) {
            eprintln!("harness error: violation did not reproduce on replay ({:?})", again);
            return 2;
        }
        report_violation(v, &path);
        code = 1;
    }
    if samples.is_empty() {
        samples.push(json!("no non-trivial history in this run"));
    }
    if opts.write_evidence {
        let mut extra = serde_json::Map::new();
        extra.insert("histories".into(), json!(agg.hist));
        extra.insert("history_operations".into(), json!(agg.hist_ops));
        extra.insert("history_commits".into(), json!(agg.hist_commits));
        extra.insert("history_max_depth".into(), json!(agg.hist_max_depth));
        extra.insert("wrap_window_histories".into(), json!({"count": 52, "operations": wrap_ops, "what": "one slot left alone for N branch operations, N in a window of +-6 around 2^8, 2*2^8, 2^16, 2*2^16, then written inside an abandoned alternative"}));
        extra.insert("distinct_nontrivial_histories".into(), json!(hist_nt.len()));
        extra.insert("distinct_nontrivial_vm_cases".into(), json!(prog_nt.len()));
        extra.insert("vm_cases".into(), json!(agg.prog_cases));
        extra.insert("vm_cases_on_backtracking_vm".into(), json!(agg.prog_fancy));
        extra.insert("faults".into(), json!({
            "capacity_fault_in_history_fired": agg.hist_cap_faults,
            "limit_fault_in_vm_run_configured": agg.prog_faulted,
            "limit_fault_in_vm_run_fired": agg.prog_fault_fired,
        }));
        extra.insert("logical_time".into(), json!({
            "vm_instructions_shadowed": agg.shadow.insns,
            "state_operations_compared": agg.shadow.ops + agg.hist_ops,
        }));
        extra.insert("probes".into(), json!({
            "vm_runs_shadowed": agg.shadow.runs,
            "vm_rollbacks": agg.shadow.pops,
            "vm_commits": agg.shadow.cuts,
            "vm_commits_discarding_alternatives": agg.shadow.cuts_nonempty,
            "vm_commits_discarding_2plus": agg.shadow.cuts_multi,
            "vm_rollback_after_commit_changing_slots": agg.shadow.rollback_after_cut,
            "atomic_commits_bracket_checked": agg.shadow.atomic_commits_checked,
            "negative_lookaround_unwinds_checked": agg.shadow.neglook_unwinds_checked,
            "results_checked_for_captures_surviving_a_negative_lookaround": agg.shadow.neglook_group_checks,
            "backreference_and_condition_reads_checked_against_the_state": agg.shadow.capture_reads_checked,
            "patterns_with_commit_brackets_around_atomic_possessive_or_lookaround_constructs": agg.bracketed_patterns,
            "constructs_left_with_exactly_the_alternatives_alive_at_entry_checked_at_the_end_marker": agg.shadow.commit_brackets_checked,
            "vm_max_branch_depth": agg.shadow.max_depth,
            "vm_max_aux_depth": agg.shadow.max_aux,
            "vm_runs_where_model_was_capped_by_depth": agg.shadow.model_capped,
        }));
        extra.insert("runs_per_hour".into(), json!(((jobs_done as f64) / wall.max(1e-9) * 3600.0) as u64));
        extra.insert("seeds".into(), json!(format!("derive({}, 0..{})", seed, jobs_done)));
        extra.insert("real_vs_stub".into(), json!({
            "real": ["fancy_regex::vm::State (through the verif-hooks wrapper)", "fancy_regex::vm::run", "regex-automata delegates"],
            "model": ["whole-state-copy reference model (sim/src/shadow.rs)"],
            "stubbed": ["limits overridden through the H2 hook for fault runs"],
        }));
        extra.insert("known_findings_reported".into(), json!(known_lines));
        extra.insert("generated_vm_runs_showing_the_listed_leak_signature".into(), json!(agg.known_leak_hits));
        Evidence {
            property: PROP.into(),
            tier: opts.tier,
            seed,
            level: "exploration",
            evaluations: agg.hist + agg.prog_cases + agg.prog_faulted,
            distinct_nontrivial: (hist_nt.len() + prog_nt.len()) as u64,
            rule: "histories: seeded legal operation sequences (len 5..60/120, 3 slots, 3 values, swarm weights, capacity 2..8 in a third of runs; one in twelve is a large-commit history: one or two nested groups over 8..40 alternatives that each write most of 3..6 slots, the commit, then abandoning what is older; one in sixteen is a wide history: 8..200 slots with the writes concentrated on the first, the last and the slots next to 64 and 128, 40..300 operations, 5 values; plus the fixed wrap-window histories around 2^8 and 2^16 quiet operations); non-trivial = contains a commit discarding >=2 alternatives that wrote the same slot, or a rollback after a commit that changes a slot; distinct by hash of the operation list. VM cases: (pattern,text,pos) on the backtracking VM, non-trivial = at least one commit discarded an alternative or a negative look-around unwound; distinct by hash of the triple; besides the State-level rules, every result is checked for a group inside a negative look-around being set".into(),
            samples,
            extra,
            assumptions: vec![
                "the read-only view (slots, live auxiliary stack, depth) exposes all state the VM's forward behaviour reads".into(),
                "a generated VM run that consumes a conditional's leaked atomic marker (the listed known finding, recognised by its call-site signature) is counted and not checked past that point".into(),
            ],
            wall_s: wall,
            violations,
        }
        .write();
    }
    println!(
        "C20 {}: {} histories ({} ops, {} commits), {} shadowed VM runs, {} distinct non-trivial, {:.1}s",
        opts.tier.name(), agg.hist, agg.hist_ops, agg.hist_commits, agg.shadow.runs, hist_nt.len() + prog_nt.len(), wall
    );
    code
}
