//! C18 — a compiled regex can be used from many threads at once.
//!
//! System under simulation: T caller threads (real threads under the baton scheduler) running
//! seeded programs over the whole search API against one shared `Regex`, clones of it, or both.
//! Oracle: every call returns exactly what the same call returns alone on a fresh `Regex`.

use crate::common::*;
use crate::gen::{self, GenCfg};
use crate::rng::{derive, Fnv, Rng};
use crate::sched::{self, Policy, Sched, SITE_OP_BOUNDARY};
use fancy_regex::verif::{self, LimitOverride};
use fancy_regex::{Captures, NoExpand, Regex, RegexBuilder};
use serde_json::{json, Value};
use std::collections::HashSet;
use std::sync::{Arc, Mutex};
use std::time::Duration;

pub const PROP: &str = "C18";
/// instruction budget of one operation run alone (operations heavier than 20k instructions are
/// dropped from scenarios anyway; this only stops an operation that spins)
const SOLO_INSN_BUDGET: u64 = 50_000_000;
/// the same for the operations of a volume scenario, and the scheduler-decision budget of such a run
const HEAVY_INSN_BUDGET: u64 = 400_000_000;
const HEAVY_DECISION_BUDGET: u64 = 600_000_000;

/// Compile-time part of the property. If `/repo` still builds but this module does not, the
/// `check` script reports the build failure as the violation (it greps for this module's name).
#[allow(dead_code)]
mod frsim_c18_static_assertions {
    use fancy_regex::{Captures, Match, Matches, CaptureMatches, Regex, Split, SplitN};
    fn send_sync_clone<T: Send + Sync + Clone>() {}
    fn send<T: Send>() {}
    fn sync<T: Sync>() {}
    fn assertions() {
        send_sync_clone::<Regex>();
        send::<Captures<'static>>();
        sync::<Captures<'static>>();
        send::<Match<'static>>();
        sync::<Match<'static>>();
        send::<Matches<'static, 'static>>();
        send::<CaptureMatches<'static, 'static>>();
        send::<Split<'static, 'static>>();
        send::<SplitN<'static, 'static>>();
    }
}

#[derive(Clone, Debug, PartialEq, Eq)]
pub enum RepKind {
    Identity,
    Const,
    NoExpand,
    Template,
    /// two more `$`-templates: callers of one regex family with different templates in flight
    TemplateB,
    TemplateC,
    /// closure that replaces, with the scenario's OTHER regex, inside the match it was given: two
    /// threads doing this on two regexes in opposite order hold whatever a replace holds while the
    /// replacer runs, crosswise
    Nested,
    /// closure that searches with the same regex while the replace is in progress
    Reentrant,
}

#[derive(Clone, Debug, PartialEq, Eq)]
pub enum OpKind {
    IsMatch,
    Find,
    FindFromPos(usize),
    Captures(usize),
    FindIter,
    CapturesIter,
    Split,
    SplitN(usize),
    Replace(usize, RepKind),
    /// clone the regex (possibly while other threads search), search with the clone, drop it
    CloneAndFind,
    /// take captures, let other threads run, then read every group (shared name table)
    CapturesHeld,
    /// search with a private clone, drop the clone while the Captures are still alive, let other
    /// threads run, then read every group by index and by name (the name table outlives its Regex)
    CapturesOutliveRegex,
    /// regex life cycle across threads: drop whatever regex sits in mailbox `slot` (its destructor
    /// may run here), compile regex spec `spec` afresh and leave it in the mailbox for other threads
    Publish { slot: usize, spec: usize },
    /// search with whatever regex currently sits in mailbox `slot` (compiled, and possibly soon
    /// dropped, by another thread); the result names the spec it saw
    UseSlot { slot: usize },
}

/// Mailboxes through which threads hand freshly compiled regexes to each other. Locks are never held
/// across a yield point, so no simulated thread can block on them.
pub struct Mail {
    pub slots: Vec<Mutex<Option<(usize, Arc<Regex>)>>>,
    pub specs: Vec<RegexSpec>,
}

#[derive(Clone, Debug, PartialEq, Eq)]
pub struct Op {
    pub kind: OpKind,
    /// which regex of the scenario
    pub re: usize,
    /// which text of the scenario
    pub text: usize,
    /// limit fault on the op's j-th vm::run: (j, "ble"|"so", value)
    pub fault: Option<(u64, String, usize)>,
}

#[derive(Clone, Debug)]
pub struct RegexSpec {
    pub pattern: String,
    pub builder_limit: Option<usize>,
}

impl RegexSpec {
    pub fn build(&self) -> Option<Regex> {
        match self.builder_limit {
            None => compile(&self.pattern),
            Some(k) => std::panic::catch_unwind(|| RegexBuilder::new(&self.pattern).backtrack_limit(k).build())
                .ok()
                .and_then(|r| r.ok()),
        }
    }
}

/// How a thread reaches its regexes.
#[derive(Clone, Copy, Debug, PartialEq, Eq)]
pub enum Sharing {
    /// all threads use the same `Arc<Regex>`
    Shared,
    /// every thread gets its own clone (made before the threads start)
    Clones,
    /// even-numbered threads share, odd-numbered ones use clones
    Mixed,
}

#[derive(Clone, Debug)]
pub struct Scenario {
    pub regexes: Vec<RegexSpec>,
    pub texts: Vec<String>,
    pub threads: Vec<Vec<Op>>,
    pub sharing: Sharing,
    /// number of mailboxes (0 = no life-cycle operations in this scenario)
    pub mailboxes: usize,
    /// volume scenario (long texts, searches holding hundreds of thousands of alternatives):
    /// larger step budgets, cheaper minimisation
    pub heavy: bool,
}

// ------------------------------------------------------------------------------------------------
// executing one operation; the result is a plain string so that it can be compared and printed

fn fmt_span(m: Option<fancy_regex::Match<'_>>) -> String {
    match m {
        Some(m) => format!("({},{})", m.start(), m.end()),
        None => "-".to_string(),
    }
}

fn fmt_caps(c: &Captures<'_>, re: &Regex) -> String {
    let mut s = String::new();
    s.push_str(&format!("len={}", c.len()));
    for i in 0..c.len() {
        s.push_str(&format!(" {}:{}", i, fmt_span(c.get(i))));
    }
    // iter() and name() must agree with get()
    let via_iter: Vec<String> = c.iter().map(fmt_span).collect();
    s.push_str(&format!(" iter=[{}]", via_iter.join(",")));
    for (i, n) in re.capture_names().enumerate() {
        if let Some(n) = n {
            s.push_str(&format!(" {}@{}={}", n, i, fmt_span(c.name(n))));
        }
    }
    s
}

fn fmt_err(e: &fancy_regex::Error) -> String {
    format!("Err({:?})", err_kind(e))
}

pub fn exec_op(re: &Regex, text: &str, op: &Op) -> String {
    exec_op_with(re, text, op, None)
}

pub fn exec_op_with(re: &Regex, text: &str, op: &Op, mail: Option<&Mail>) -> String {
    verif::reset_run_ordinal();
    match &op.fault {
        Some((j, kind, val)) => verif::set_fault_plan(vec![(
            *j,
            if kind == "ble" {
                LimitOverride { backtrack_limit: Some(*val), max_stack: None }
            } else {
                LimitOverride { backtrack_limit: None, max_stack: Some(*val) }
            },
        )]),
        None => verif::set_fault_plan(Vec::new()),
    }
    let r = std::panic::catch_unwind(std::panic::AssertUnwindSafe(|| match (&op.kind, mail) {
        (OpKind::Publish { slot, spec }, Some(m)) => {
            let old = m.slots[*slot].lock().unwrap().take();
            drop(old);
            if spec % 2 == 0 {
                sched::yield_now(SITE_OP_BOUNDARY);
            }
            match m.specs[*spec].build() {
                Some(r) => {
                    *m.slots[*slot].lock().unwrap() = Some((*spec, Arc::new(r)));
                    "published".to_string()
                }
                None => "publish-failed".to_string(),
            }
        }
        (OpKind::UseSlot { slot }, Some(m)) => {
            let got = m.slots[*slot].lock().unwrap().as_ref().map(|(i, r)| (*i, r.clone()));
            match got {
                None => "empty".to_string(),
                Some((i, r)) => {
                    let res = std::panic::catch_unwind(std::panic::AssertUnwindSafe(|| use_slot_search(&r, text)))
                        .unwrap_or_else(|p| format!("PANIC({})", panic_message(p)));
                    sched::yield_now(SITE_OP_BOUNDARY);
                    drop(r);
                    format!("spec={} {}", i, res)
                }
            }
        }
        (OpKind::Publish { .. }, None) | (OpKind::UseSlot { .. }, None) => "n/a".to_string(),
        _ => exec_op_inner(re, text, op),
    }));
    verif::set_fault_plan(Vec::new());
    match r {
        Ok(s) => s,
        Err(p) => format!("PANIC({})", panic_message(p)),
    }
}

/// what a UseSlot operation does with the regex it found (also used, alone on a fresh regex, as
/// its reference)
fn use_slot_search(re: &Regex, text: &str) -> String {
    let a = match re.captures(text) {
        Ok(Some(c)) => fmt_caps(&c, re),
        Ok(None) => "-".to_string(),
        Err(e) => fmt_err(&e),
    };
    let mut out = vec![a];
    for m in re.find_iter(text).take(text.chars().count() + 3) {
        match m {
            Ok(m) => out.push(fmt_span(Some(m))),
            Err(e) => out.push(fmt_err(&e)),
        }
    }
    out.join(" ")
}

fn clamp_pos(text: &str, pos: usize) -> usize {
    let mut p = pos.min(text.len());
    while !text.is_char_boundary(p) {
        p -= 1;
    }
    p
}

fn exec_op_inner(re: &Regex, text: &str, op: &Op) -> String {
    match &op.kind {
        OpKind::IsMatch => match re.is_match(text) {
            Ok(b) => format!("{}", b),
            Err(e) => fmt_err(&e),
        },
        OpKind::Find => match re.find(text) {
            Ok(m) => fmt_span(m),
            Err(e) => fmt_err(&e),
        },
        OpKind::FindFromPos(p) => match re.find_from_pos(text, clamp_pos(text, *p)) {
            Ok(m) => fmt_span(m),
            Err(e) => fmt_err(&e),
        },
        OpKind::Captures(p) => match re.captures_from_pos(text, clamp_pos(text, *p)) {
            Ok(Some(c)) => fmt_caps(&c, re),
            Ok(None) => "-".to_string(),
            Err(e) => fmt_err(&e),
        },
        OpKind::CapturesHeld => match re.captures(text) {
            Ok(Some(c)) => {
                // other threads run (and take / drop their own Captures) while this one is held
                sched::yield_now(SITE_OP_BOUNDARY);
                let s = fmt_caps(&c, re);
                sched::yield_now(SITE_OP_BOUNDARY);
                drop(c);
                s
            }
            Ok(None) => "-".to_string(),
            Err(e) => fmt_err(&e),
        },
        OpKind::FindIter => {
            let mut out = Vec::new();
            for m in re.find_iter(text).take(text.chars().count() + 3) {
                match m {
                    Ok(m) => out.push(fmt_span(Some(m))),
                    Err(e) => out.push(fmt_err(&e)),
                }
            }
            out.join(" ")
        }
        OpKind::CapturesIter => {
            let mut out = Vec::new();
            for c in re.captures_iter(text).take(text.chars().count() + 3) {
                match c {
                    Ok(c) => out.push(format!("[{}]", fmt_caps(&c, re))),
                    Err(e) => out.push(fmt_err(&e)),
                }
            }
            out.join(" ")
        }
        OpKind::Split => {
            let mut out = Vec::new();
            for p in re.split(text).take(text.chars().count() + 4) {
                match p {
                    Ok(p) => out.push(format!("{:?}", p)),
                    Err(e) => {
                        out.push(fmt_err(&e));
                        break;
                    }
                }
            }
            out.join(" ")
        }
        OpKind::SplitN(n) => {
            let mut out = Vec::new();
            for p in re.splitn(text, *n).take(text.chars().count() + 4) {
                match p {
                    Ok(p) => out.push(format!("{:?}", p)),
                    Err(e) => {
                        out.push(fmt_err(&e));
                        break;
                    }
                }
            }
            out.join(" ")
        }
        OpKind::Replace(n, kind) => {
            let r = match kind {
                RepKind::Identity => re.try_replacen(text, *n, |c: &Captures<'_>| c[0].to_string()),
                RepKind::Const => re.try_replacen(text, *n, |_: &Captures<'_>| "X".to_string()),
                RepKind::NoExpand => re.try_replacen(text, *n, NoExpand("$0!")),
                RepKind::Template => re.try_replacen(text, *n, "<${0}>"),
                RepKind::TemplateB => re.try_replacen(text, *n, "[$0|$1]"),
                RepKind::TemplateC => re.try_replacen(text, *n, "$1-${0}$$"),
                RepKind::Nested => {
                    let peer: Option<Arc<Regex>> = PEERS.with(|p| {
                        let p = p.borrow();
                        if p.len() > 1 {
                            Some(p[(op.re + 1) % p.len()].clone())
                        } else {
                            None
                        }
                    });
                    match peer {
                        Some(peer) => re.try_replacen(text, *n, |c: &Captures<'_>| {
                            match peer.try_replacen(&c[0], 0, |d: &Captures<'_>| format!("({})", &d[0])) {
                                Ok(s) => s.into_owned(),
                                Err(e) => fmt_err(&e),
                            }
                        }),
                        None => re.try_replacen(text, *n, |c: &Captures<'_>| c[0].to_string()),
                    }
                }
                RepKind::Reentrant => re.try_replacen(text, *n, |c: &Captures<'_>| {
                    // re-entrant use of the same regex on the same thread, mid-replace
                    let inner = match re.find(&c[0]) {
                        Ok(m) => fmt_span(m),
                        Err(e) => fmt_err(&e),
                    };
                    format!("{{{}}}", inner)
                }),
            };
            match r {
                Ok(c) => format!("{:?}", c),
                Err(e) => fmt_err(&e),
            }
        }
        OpKind::CapturesOutliveRegex => {
            let c = clone_unless_reference(re);
            let names: Vec<Option<String>> = c.capture_names().map(|n| n.map(|s| s.to_string())).collect();
            match c.captures(text) {
                Ok(Some(caps)) => {
                    drop(c);
                    sched::yield_now(SITE_OP_BOUNDARY);
                    let mut s = format!("len={}", caps.len());
                    for i in 0..caps.len() {
                        s.push_str(&format!(" {}:{}", i, fmt_span(caps.get(i))));
                    }
                    for (i, n) in names.iter().enumerate() {
                        if let Some(n) = n {
                            s.push_str(&format!(" {}@{}={}", n, i, fmt_span(caps.name(n))));
                        }
                    }
                    sched::yield_now(SITE_OP_BOUNDARY);
                    s
                }
                Ok(None) => "-".to_string(),
                Err(e) => fmt_err(&e),
            }
        }
        OpKind::Publish { .. } | OpKind::UseSlot { .. } => "n/a".to_string(),
        OpKind::CloneAndFind => {
            let c = clone_unless_reference(re);
            sched::yield_now(SITE_OP_BOUNDARY);
            let r = match c.captures(text) {
                Ok(Some(caps)) => fmt_caps(&caps, &c),
                Ok(None) => "-".to_string(),
                Err(e) => fmt_err(&e),
            };
            sched::yield_now(SITE_OP_BOUNDARY);
            drop(c);
            r
        }
    }
}

thread_local! {
    /// set while the reference results are computed: "through clones obtain exactly the
    /// single-threaded result" is judged against the ORIGINAL used alone, so the reference run of an
    /// operation that works through a private clone works through a second regex built from the
    /// same specification instead (a clone that differs from its original — or a `clone()` that
    /// panics — would otherwise be its own reference)
    static REFERENCE_FRESH: std::cell::RefCell<Option<Regex>> = const { std::cell::RefCell::new(None) };
}

thread_local! {
    /// the regexes of the scenario as this thread reaches them (set by whoever runs operations on
    /// this thread): lets a replacer closure use the *other* regex of the scenario
    static PEERS: std::cell::RefCell<Vec<Arc<Regex>>> = const { std::cell::RefCell::new(Vec::new()) };
}

fn clone_unless_reference(re: &Regex) -> Regex {
    REFERENCE_FRESH.with(|r| r.borrow_mut().take()).unwrap_or_else(|| re.clone())
}

// ------------------------------------------------------------------------------------------------
// reference (solo) results and the concurrent run

/// Every call alone, single-threaded, on a freshly compiled regex.
pub fn solo_results(sc: &Scenario) -> Option<Vec<Vec<String>>> {
    budget::install();
    let mut out = Vec::new();
    for ops in &sc.threads {
        let mut v = Vec::new();
        for op in ops {
            let re = sc.regexes[op.re].build()?;
            if matches!(op.kind, OpKind::Replace(_, RepKind::Nested)) {
                let fresh: Vec<Arc<Regex>> = sc.regexes.iter().map(|r| r.build().map(Arc::new)).collect::<Option<Vec<_>>>()?;
                PEERS.with(|p| *p.borrow_mut() = fresh);
            }
            if matches!(op.kind, OpKind::CloneAndFind | OpKind::CapturesOutliveRegex) {
                let second = sc.regexes[op.re].build()?;
                REFERENCE_FRESH.with(|r| *r.borrow_mut() = Some(second));
            }
            budget::arm(if sc.heavy { HEAVY_INSN_BUDGET } else { SOLO_INSN_BUDGET }, 100_000);
            v.push(exec_op(&re, &sc.texts[op.text], op));
            budget::disarm();
            REFERENCE_FRESH.with(|r| *r.borrow_mut() = None);
            PEERS.with(|p| p.borrow_mut().clear());
        }
        out.push(v);
    }
    Some(out)
}

#[derive(Clone, Debug)]
pub struct RunResult {
    pub results: Vec<Vec<String>>,
    pub handoffs: Vec<(u64, usize)>,
    pub stats: sched::SchedStats,
    pub deadlock: bool,
    pub budget_exhausted: bool,
}

pub fn run_concurrent(sc: &Scenario, seed: u64, policy: Policy) -> Option<RunResult> {
    let n = sc.threads.len();
    let shared: Vec<Arc<Regex>> = sc.regexes.iter().map(|r| r.build().map(Arc::new)).collect::<Option<Vec<_>>>()?;
    let texts = Arc::new(sc.texts.clone());
    let mail = Arc::new(Mail { slots: (0..sc.mailboxes).map(|_| Mutex::new(None)).collect(), specs: sc.regexes.clone() });
    let sched = Sched::new(n, seed, policy, if sc.heavy { HEAVY_DECISION_BUDGET } else { 5_000_000 });
    let results: Arc<Mutex<Vec<Vec<String>>>> = Arc::new(Mutex::new(vec![Vec::new(); n]));
    let mut handles = Vec::new();
    for t in 0..n {
        let ops = sc.threads[t].clone();
        let use_clone = match sc.sharing {
            Sharing::Shared => false,
            Sharing::Clones => true,
            Sharing::Mixed => t % 2 == 1,
        };
        let originals: Vec<Arc<Regex>> = shared.clone();
        let texts = texts.clone();
        let sched = sched.clone();
        let results = results.clone();
        let mail = mail.clone();
        handles.push(
            std::thread::Builder::new()
                .stack_size(16 << 20)
                .spawn(move || {
                    sched.enter(t);
                    verif::set_yield_hook(Some(sched::yield_hook));
                    let mut mine = Vec::new();
                    // a thread that works through clones makes them itself, as its first action
                    // (other threads may already be searching the originals); a `clone()` that
                    // panics is this thread's result for every operation
                    let regs: Vec<Arc<Regex>> = if use_clone {
                        match std::panic::catch_unwind(std::panic::AssertUnwindSafe(|| originals.iter().map(|r| Arc::new((**r).clone())).collect::<Vec<_>>())) {
                            Ok(v) => {
                                drop(originals);
                                v
                            }
                            Err(p) => {
                                let msg = panic_message(p);
                                mine = ops.iter().map(|_| format!("PANIC(Regex::clone: {})", msg)).collect();
                                verif::set_yield_hook(None);
                                results.lock().unwrap()[t] = mine;
                                drop(mail);
                                sched.finish(t);
                                return;
                            }
                        }
                    } else {
                        originals
                    };
                    PEERS.with(|p| *p.borrow_mut() = regs.clone());
                    for op in &ops {
                        let r = exec_op_with(&regs[op.re], &texts[op.text], op, Some(&mail));
                        mine.push(r);
                        sched::yield_now(SITE_OP_BOUNDARY);
                    }
                    verif::set_yield_hook(None);
                    PEERS.with(|p| p.borrow_mut().clear());
                    results.lock().unwrap()[t] = mine;
                    drop(regs);
                    drop(mail);
                    sched.finish(t);
                })
                .expect("spawn simulated thread"),
        );
    }
    sched.start();
    let deadlock = sched.wait_all(Duration::from_secs(5), Duration::from_secs(20)).is_err();
    if !deadlock {
        for h in handles {
            let _ = h.join();
        }
    }
    let (handoffs, stats, budget_exhausted) = sched.take_trace();
    let results = results.lock().unwrap().clone();
    Some(RunResult { results, handoffs, stats, deadlock, budget_exhausted })
}

/// texts of volume scenarios are hundreds of kilobytes: messages show both ends and the length
fn abbreviate(text: &str) -> String {
    if text.len() <= 200 {
        return text.to_string();
    }
    let head: String = text.chars().take(40).collect();
    let tail: String = text.chars().rev().take(20).collect::<Vec<_>>().into_iter().rev().collect();
    format!("{}...[{} bytes]...{}", head, text.len(), tail)
}

/// Compare a concurrent run with the solo results.
pub fn judge(sc: &Scenario, solo: &[Vec<String>], r: &RunResult) -> Option<(String, String)> {
    if r.deadlock {
        return Some(("deadlock".into(), "no simulated thread can make progress, even with every thread released".into()));
    }
    for t in 0..sc.threads.len() {
        if r.results[t].len() != solo[t].len() {
            return Some((
                "thread-did-not-finish".into(),
                format!("thread {} completed {} of {} operations", t, r.results[t].len(), solo[t].len()),
            ));
        }
        for (k, op) in sc.threads[t].iter().enumerate() {
            match &op.kind {
                OpKind::Publish { .. } => {
                    if r.results[t][k] != "published" {
                        return Some(("result-differs-from-solo".into(), format!("thread {} op #{} {:?}: {}", t, k, op.kind, r.results[t][k])));
                    }
                    continue;
                }
                OpKind::UseSlot { .. } => {
                    let got = &r.results[t][k];
                    if got == "empty" {
                        continue;
                    }
                    // "spec=<i> <result>": the reference is the same search alone on a fresh regex
                    let spec = got.strip_prefix("spec=").and_then(|x| x.split(' ').next()).and_then(|x| x.parse::<usize>().ok());
                    let expect = spec.and_then(|i| sc.regexes.get(i)).and_then(|s| s.build()).map(|re| {
                        verif::reset_run_ordinal();
                        verif::set_fault_plan(Vec::new());
                        budget::install();
                        budget::arm(SOLO_INSN_BUDGET, 100_000);
                        let e = std::panic::catch_unwind(std::panic::AssertUnwindSafe(|| use_slot_search(&re, &sc.texts[op.text]))).unwrap_or_else(|p| format!("PANIC({})", panic_message(p)));
                        budget::disarm();
                        format!("spec={} {}", spec.unwrap(), e)
                    });
                    if expect.as_deref() != Some(got.as_str()) {
                        let class = if got.contains("PANIC") { "panic-only-when-concurrent" } else { "result-differs-from-solo" };
                        return Some((
                            class.into(),
                            format!(
                                "thread {} op #{} UseSlot on text {:?}: searching the regex another thread had just compiled (/{}/) returned {} ; alone on a fresh Regex it returns {:?}",
                                t, k, sc.texts[op.text], spec.and_then(|i| sc.regexes.get(i)).map(|s| s.pattern.as_str()).unwrap_or("?"), got, expect
                            ),
                        ));
                    }
                    continue;
                }
                _ => {}
            }
            if r.results[t][k] != solo[t][k] {
                let class = if r.results[t][k].starts_with("PANIC") && !solo[t][k].starts_with("PANIC") {
                    "panic-only-when-concurrent"
                } else {
                    "result-differs-from-solo"
                };
                return Some((
                    class.into(),
                    format!(
                        "thread {} op #{} {:?} on /{}/ text {:?}: concurrent run returned {} ; alone on a fresh Regex it returns {}",
                        t, k, op.kind, sc.regexes[op.re].pattern, abbreviate(&sc.texts[op.text]), r.results[t][k], solo[t][k]
                    ),
                ));
            }
        }
    }
    None
}

// ------------------------------------------------------------------------------------------------
// scenario generation

const C18_PATTERNS: &[&str] = &[
    // delegated as a whole
    r"\d{4}-\d{2}",
    r"[ab]+c?",
    r"(a|b)*c",
    r"(?<w>\w+)-(\w+)",
    r"a*",
    // backtracking VM
    r"(\w+) \1",
    r"(a+)b\1",
    r"\w+(?=!)",
    r"(?>a+)b|ab",
    r"(?<=a)b+",
    r"(a|ab)(c|bcd)\2",
    r"(?<x>a+)(?!b)\k<x>?",
    r"(?:a|b)*?c(?=a|$)",
    r"\Ga",
    r"ab\Kc+",
    r"(a)?(?(1)b|c)",
    r"(a*)*b",
    r"\b(\w)\w*\1\b",
    r"(?<first>a+)(?<second>b+)?\k<first>",
    r"(?<y>\d{2})-(?<m>\d)(?!\d)",
];

/// Families of patterns that compile to programs of the same shape and size (so that a regex
/// compiled after another was dropped tends to land on the same addresses) but answer differently.
const SIBLINGS: &[&[&str]] = &[
    &[r"\w+(?=!)", r"\d+(?=!)", r"[ab]+(?=!)", r"[^a]+(?=!)"],
    &[r"(\w+)\s\w+(?=!)", r"(\d+)\s\d+(?=!)", r"([a-c]+)\s\S+(?=!)"],
    &[r"(?<=a)\w+(?!-)", r"(?<=a)\d+(?!-)", r"(?<=a)[b-]+(?!-)"],
    &[r"(a+)b\1", r"(b+)a\1", r"(a+)c\1", r"(c+)b\1"],
    &[r"(\w)\w*-\1", r"(\d)\d*-\1", r"([ab])\S*-\1"],
    &[r"(a)?(?(1)b|c)", r"(b)?(?(1)a|c)", r"(c)?(?(1)a|b)"],
];

fn gen_scenario(rng: &mut Rng, max_threads: usize) -> Option<Scenario> {
    let n_re = rng.range(1, 2);
    let mut regexes = Vec::new();
    let cfg = GenCfg::swarm(rng);
    for _ in 0..n_re {
        let pattern = if rng.chance(2, 3) {
            rng.pick(C18_PATTERNS).to_string()
        } else {
            gen::gen_pattern(rng, &cfg).render()
        };
        let builder_limit = if rng.chance(1, 8) { Some(*rng.pick(&[1usize, 3, 10, 100])) } else { None };
        let spec = RegexSpec { pattern, builder_limit };
        spec.build()?;
        regexes.push(spec);
    }
    // a quarter of the scenarios exercise the regex life cycle across threads
    let mailboxes = if rng.chance(1, 3) { rng.range(1, 2) } else { 0 };
    let first_sibling = regexes.len();
    if mailboxes > 0 {
        let fam = *rng.pick(SIBLINGS);
        for p in fam.iter().take(rng.range(2, fam.len())) {
            let spec = RegexSpec { pattern: p.to_string(), builder_limit: None };
            spec.build()?;
            regexes.push(spec);
        }
    }
    let n_texts = rng.range(2, 4);
    let mut texts: Vec<String> = (0..n_texts).map(|_| gen::gen_text(rng, 8)).collect();
    texts.push(rng.pick(&["aaab aaab!", "2018-04 ab-cd", "abcbcd abab", "aaaaaaaaaa", "ab ab! ba"]).to_string());
    if mailboxes > 0 {
        texts.push("ab 12! a1-a b2!".to_string());
        texts.push(rng.pick(&["a12 ab- ba!", "12 34! ab cd!", "b-b 1-1 ab-a"]).to_string());
    }
    let n_threads = rng.range(2, max_threads);
    let sharing = *rng.pick(&[Sharing::Shared, Sharing::Shared, Sharing::Clones, Sharing::Mixed]);
    let mut threads = Vec::new();
    for t in 0..n_threads {
        let n_ops = if mailboxes > 0 { rng.range(6, 16) } else { rng.range(2, if n_threads > 8 { 4 } else { 8 }) };
        let mut ops = Vec::new();
        for _ in 0..n_ops {
            let text = rng.below(texts.len());
            let tl = texts[text].len();
            let kind = match rng.below(17) {
                0 => OpKind::IsMatch,
                1 | 2 => OpKind::Find,
                3 => OpKind::FindFromPos(rng.below(tl + 1)),
                4 | 5 => OpKind::Captures(if rng.chance(1, 2) { 0 } else { rng.below(tl + 1) }),
                6 | 7 => OpKind::FindIter,
                8 => OpKind::CapturesIter,
                9 => OpKind::Split,
                10 => OpKind::SplitN(rng.below(4)),
                11 | 12 => OpKind::Replace(
                    rng.below(3),
                    rng.pick(&[RepKind::Identity, RepKind::Const, RepKind::NoExpand, RepKind::Template, RepKind::TemplateB, RepKind::TemplateC, RepKind::Reentrant, RepKind::Nested]).clone(),
                ),
                13 => OpKind::CloneAndFind,
                14 => OpKind::CapturesOutliveRegex,
                _ => OpKind::CapturesHeld,
            };
            // life-cycle scenarios: thread 0 mostly compiles / drops / publishes (the same thread
            // freeing and allocating is what makes addresses recur), the others mostly search with
            // whatever is published
            let kind = if mailboxes > 0 && rng.chance(3, 4) {
                let publish = if t == 0 { rng.chance(3, 4) } else { rng.chance(1, 8) };
                if publish {
                    OpKind::Publish { slot: rng.below(mailboxes), spec: first_sibling + rng.below(regexes.len() - first_sibling) }
                } else {
                    OpKind::UseSlot { slot: rng.below(mailboxes) }
                }
            } else {
                kind
            };
            // ordinary operations use the scenario's ordinary regexes
            ops.push(Op { kind, re: rng.below(first_sibling), text, fault: None });
        }
        threads.push(ops);
    }
    Some(Scenario { regexes, texts, threads, sharing, mailboxes, heavy: false })
}

/// Add limit faults to some operations, placed where they can fire (thresholds read from a solo
/// pass), and drop operations that are too heavy for a concurrency workload.
fn place_faults_and_trim(sc: &mut Scenario, rng: &mut Rng) -> u64 {
    let mut est_decisions = 0u64;
    budget::install();
    for t in 0..sc.threads.len() {
        let mut keep = Vec::new();
        for op in sc.threads[t].clone() {
            if matches!(op.kind, OpKind::Publish { .. } | OpKind::UseSlot { .. }) {
                est_decisions += 200;
                keep.push(op);
                continue;
            }
            let Some(re) = sc.regexes[op.re].build() else { continue };
            verif::record_run_stats(true);
            budget::arm(SOLO_INSN_BUDGET, 100_000);
            let probe = exec_op(&re, &sc.texts[op.text], &op);
            budget::disarm();
            if probe.contains("frsim-budget") {
                continue; // spins or far too heavy alone: not a concurrency workload
            }
            let runs = verif::take_run_stats();
            verif::record_run_stats(false);
            let insns: u64 = runs.iter().map(|r| r.insns + r.backtracks).sum();
            if insns > 20_000 {
                continue; // too heavy: runs must make progress between hand-offs
            }
            est_decisions += insns + runs.len() as u64 * 3 + 4;
            let mut op = op;
            if !runs.is_empty() && rng.chance(1, 5) {
                let j = rng.below(runs.len());
                let rs = runs[j];
                if rs.backtracks > 0 && rng.chance(2, 3) {
                    op.fault = Some((j as u64, "ble".into(), rng.below(rs.backtracks as usize + 1)));
                } else if rs.peak_depth > 0 {
                    op.fault = Some((j as u64, "so".into(), rng.below(rs.peak_depth + 1)));
                }
            }
            keep.push(op);
        }
        sc.threads[t] = keep;
    }
    sc.threads.retain(|t| !t.is_empty());
    est_decisions
}

fn gen_policy(rng: &mut Rng, est_decisions: u64) -> Policy {
    match rng.below(10) {
        0..=4 => Policy::Uniform { q: rng.range(1, 64) },
        5..=7 => {
            let d = rng.range(1, 3);
            let points = (0..d).map(|_| 1 + rng.below(est_decisions.max(2) as usize) as u64).collect();
            Policy::Pct { points }
        }
        _ => Policy::OpBoundary,
    }
}

// ------------------------------------------------------------------------------------------------
// replay files

fn op_to_json(op: &Op) -> Value {
    let kind = match &op.kind {
        OpKind::IsMatch => json!(["is_match"]),
        OpKind::Find => json!(["find"]),
        OpKind::FindFromPos(p) => json!(["find_from_pos", p]),
        OpKind::Captures(p) => json!(["captures_from_pos", p]),
        OpKind::FindIter => json!(["find_iter"]),
        OpKind::CapturesIter => json!(["captures_iter"]),
        OpKind::Split => json!(["split"]),
        OpKind::SplitN(n) => json!(["splitn", n]),
        OpKind::Replace(n, k) => json!(["try_replacen", n, format!("{:?}", k)]),
        OpKind::CloneAndFind => json!(["clone_and_find"]),
        OpKind::CapturesHeld => json!(["captures_held"]),
        OpKind::CapturesOutliveRegex => json!(["captures_outlive_regex"]),
        OpKind::Publish { slot, spec } => json!(["publish", slot, spec]),
        OpKind::UseSlot { slot } => json!(["use_slot", slot]),
    };
    json!({"op": kind, "re": op.re, "text": op.text, "fault": op.fault.as_ref().map(|(j, k, v)| json!([j, k, v]))})
}

fn op_from_json(v: &Value) -> Option<Op> {
    let a = v["op"].as_array()?;
    let n = |i: usize| a.get(i).and_then(|x| x.as_u64()).map(|x| x as usize);
    let kind = match a.first()?.as_str()? {
        "is_match" => OpKind::IsMatch,
        "find" => OpKind::Find,
        "find_from_pos" => OpKind::FindFromPos(n(1)?),
        "captures_from_pos" => OpKind::Captures(n(1)?),
        "find_iter" => OpKind::FindIter,
        "captures_iter" => OpKind::CapturesIter,
        "split" => OpKind::Split,
        "splitn" => OpKind::SplitN(n(1)?),
        "try_replacen" => OpKind::Replace(
            n(1)?,
            match a.get(2)?.as_str()? {
                "Identity" => RepKind::Identity,
                "Const" => RepKind::Const,
                "NoExpand" => RepKind::NoExpand,
                "Template" => RepKind::Template,
                "TemplateB" => RepKind::TemplateB,
                "TemplateC" => RepKind::TemplateC,
                "Nested" => RepKind::Nested,
                "Reentrant" => RepKind::Reentrant,
                _ => return None,
            },
        ),
        "clone_and_find" => OpKind::CloneAndFind,
        "captures_held" => OpKind::CapturesHeld,
        "captures_outlive_regex" => OpKind::CapturesOutliveRegex,
        "publish" => OpKind::Publish { slot: n(1)?, spec: n(2)? },
        "use_slot" => OpKind::UseSlot { slot: n(1)? },
        _ => return None,
    };
    Some(Op {
        kind,
        re: v["re"].as_u64()? as usize,
        text: v["text"].as_u64()? as usize,
        fault: match &v["fault"] {
            Value::Array(f) => Some((f[0].as_u64()?, f[1].as_str()?.to_string(), f[2].as_u64()? as usize)),
            _ => None,
        },
    })
}

fn scenario_to_json(sc: &Scenario, handoffs: &[(u64, usize)], seed: u64) -> Value {
    json!({
        "kind": "c18",
        "sched_seed": seed,
        "regexes": sc.regexes.iter().map(|r| json!({"pattern": r.pattern, "builder_limit": r.builder_limit})).collect::<Vec<_>>(),
        "texts": sc.texts,
        "sharing": format!("{:?}", sc.sharing),
        "mailboxes": sc.mailboxes,
        "heavy": sc.heavy,
        "threads": sc.threads.iter().map(|ops| ops.iter().map(op_to_json).collect::<Vec<_>>()).collect::<Vec<_>>(),
        "schedule": handoffs.iter().map(|(d, t)| json!([d, t])).collect::<Vec<_>>(),
    })
}

fn scenario_from_json(v: &Value) -> Option<(Scenario, Vec<(u64, usize)>, u64)> {
    let regexes = v["regexes"]
        .as_array()?
        .iter()
        .map(|r| Some(RegexSpec { pattern: r["pattern"].as_str()?.to_string(), builder_limit: r["builder_limit"].as_u64().map(|x| x as usize) }))
        .collect::<Option<Vec<_>>>()?;
    let texts = v["texts"].as_array()?.iter().map(|t| t.as_str().map(|s| s.to_string())).collect::<Option<Vec<_>>>()?;
    let sharing = match v["sharing"].as_str()? {
        "Shared" => Sharing::Shared,
        "Clones" => Sharing::Clones,
        _ => Sharing::Mixed,
    };
    let threads = v["threads"]
        .as_array()?
        .iter()
        .map(|ops| ops.as_array()?.iter().map(op_from_json).collect::<Option<Vec<_>>>())
        .collect::<Option<Vec<_>>>()?;
    let schedule = v["schedule"]
        .as_array()?
        .iter()
        .map(|h| Some((h[0].as_u64()?, h[1].as_u64()? as usize)))
        .collect::<Option<Vec<_>>>()?;
    let mailboxes = v["mailboxes"].as_u64().unwrap_or(0) as usize;
    let heavy = v["heavy"].as_bool().unwrap_or(false);
    Some((Scenario { regexes, texts, threads, sharing, mailboxes, heavy }, schedule, v["sched_seed"].as_u64().unwrap_or(0)))
}

fn run_forced(sc: &Scenario, handoffs: &[(u64, usize)]) -> Option<(String, String)> {
    let solo = solo_results(sc)?;
    let r = run_concurrent(sc, 0, Policy::Forced { handoffs: handoffs.to_vec() })?;
    judge(sc, &solo, &r)
}

pub fn replay(case: &Value) -> Option<(String, String)> {
    if case["kind"].as_str() == Some("static") {
        return None;
    }
    let (sc, schedule, _) = scenario_from_json(case)?;
    run_forced(&sc, &schedule)
}

/// Shrink: fewer hand-offs first (fewest preemptions), then drop operations and threads. A
/// candidate is kept only if the forced run still fails with the same class.
fn minimise(sc: &Scenario, handoffs: &[(u64, usize)], class: &str) -> (Scenario, Vec<(u64, usize)>) {
    let mut cur_sc = sc.clone();
    let mut cur_h = handoffs.to_vec();
    let same = |s: &Scenario, h: &[(u64, usize)]| run_forced(s, h).map_or(false, |(c, _)| c == class);
    let mut budget = if sc.heavy { 16 } else { 120 };
    if sc.heavy {
        // thousands of hand-offs over millions of decisions: first try whole halves of the schedule
        let mut step = cur_h.len() / 2;
        while step >= 64 && budget > 0 {
            let mut i = 1;
            while i + step <= cur_h.len() && budget > 0 {
                let mut h = cur_h.clone();
                h.drain(i..i + step);
                budget -= 1;
                if same(&cur_sc, &h) {
                    cur_h = h;
                } else {
                    i += step;
                }
            }
            step /= 2;
        }
        return (cur_sc, cur_h);
    }
    // drop hand-offs
    let mut i = cur_h.len();
    while i > 1 && budget > 0 {
        i -= 1;
        let mut h = cur_h.clone();
        h.remove(i);
        budget -= 1;
        if same(&cur_sc, &h) {
            cur_h = h;
        }
    }
    // drop operations (schedule indices shift, so only keep the change when it still fails)
    let mut t = 0;
    while t < cur_sc.threads.len() && budget > 0 {
        let mut k = cur_sc.threads[t].len();
        while k > 0 && budget > 0 {
            k -= 1;
            let mut s = cur_sc.clone();
            s.threads[t].remove(k);
            budget -= 1;
            if same(&s, &cur_h) {
                cur_sc = s;
            }
        }
        t += 1;
    }
    (cur_sc, cur_h)
}

// ------------------------------------------------------------------------------------------------

#[derive(Default)]
struct JobOut {
    runs: u64,
    ops: u64,
    decisions: u64,
    handoffs: u64,
    faulted_ops: u64,
    fault_results_err: u64,
    overlap_runs: u64,
    max_in_flight: usize,
    clone_ops: u64,
    publish_ops: u64,
    use_slot_ops: u64,
    use_slot_found: u64,
    reentrant_ops: u64,
    free_runs: u64,
    budget_exhausted: u64,
    threads_hist: Vec<u64>,
    policy_counts: [u64; 3],
    sched_hashes: Vec<u64>,
    site_counts: Vec<u64>,
    sample: Option<Value>,
    digest: u64,
}

fn job(seed: u64, i: u64, max_threads: usize, runs_per_job: usize) -> (JobOut, Option<Violation>) {
    let mut out = JobOut { threads_hist: vec![0; 17], site_counts: vec![0; 128], ..JobOut::default() };
    let mut rng = Rng::new(derive(seed, i));
    for _ in 0..runs_per_job {
        let mt = if rng.chance(1, 10) { max_threads } else { max_threads.min(8) };
        let Some(mut sc) = gen_scenario(&mut rng, mt) else { continue };
        let est = place_faults_and_trim(&mut sc, &mut rng);
        if sc.threads.len() < 2 {
            continue;
        }
        let Some(solo) = solo_results(&sc) else { continue };
        let policy = gen_policy(&mut rng, est);
        let sched_seed = rng.next_u64();
        let Some(r) = run_concurrent(&sc, sched_seed, policy.clone()) else { continue };
        out.runs += 1;
        out.threads_hist[sc.threads.len().min(16)] += 1;
        out.policy_counts[match policy {
            Policy::Uniform { .. } => 0,
            Policy::Pct { .. } => 1,
            _ => 2,
        }] += 1;
        out.decisions += r.stats.decisions;
        out.handoffs += r.stats.handoffs;
        out.max_in_flight = out.max_in_flight.max(r.stats.max_in_flight);
        if r.stats.max_in_flight >= 2 {
            out.overlap_runs += 1;
        }
        if r.stats.free_run {
            out.free_runs += 1;
        }
        if r.budget_exhausted {
            out.budget_exhausted += 1;
        }
        for (a, b) in out.site_counts.iter_mut().zip(r.stats.site_counts.iter()) {
            *a += *b;
        }
        for (t, ops) in sc.threads.iter().enumerate() {
            for (k, op) in ops.iter().enumerate() {
                out.ops += 1;
                if op.fault.is_some() {
                    out.faulted_ops += 1;
                    if solo[t][k].contains("Err(") {
                        out.fault_results_err += 1;
                    }
                }
                match op.kind {
                    OpKind::CloneAndFind | OpKind::CapturesOutliveRegex => out.clone_ops += 1,
                    OpKind::Publish { .. } => out.publish_ops += 1,
                    OpKind::UseSlot { .. } => {
                        out.use_slot_ops += 1;
                        if r.results.get(t).and_then(|v| v.get(k)).map_or(false, |x| x.starts_with("spec=")) {
                            out.use_slot_found += 1;
                        }
                    }
                    OpKind::Replace(_, RepKind::Reentrant) => out.reentrant_ops += 1,
                    _ => {}
                }
            }
        }
        let sh = sched::schedule_hash(&r.handoffs);
        if r.stats.handoffs >= 1 {
            out.sched_hashes.push(sh);
        }
        let mut d = Fnv(out.digest ^ sh);
        for t in &r.results {
            for s in t {
                d.str(s);
            }
        }
        out.digest = d.0;
        if out.sample.is_none() && r.stats.handoffs >= 2 {
            out.sample = Some(json!({
                "threads": sc.threads.len(),
                "regexes": sc.regexes.iter().map(|r| r.pattern.clone()).collect::<Vec<_>>(),
                "sharing": format!("{:?}", sc.sharing),
                "policy": format!("{:?}", policy).chars().take(80).collect::<String>(),
                "first_ops_of_thread_0": sc.threads[0].iter().take(3).map(op_to_json).collect::<Vec<_>>(),
                "handoffs": r.stats.handoffs,
                "decisions": r.stats.decisions,
                "first_handoffs": r.handoffs.iter().take(8).map(|(d, t)| json!([d, t])).collect::<Vec<_>>(),
            }));
        }
        if let Some((class, detail)) = judge(&sc, &solo, &r) {
            if r.stats.free_run {
                // not replayable: report as found, with the recorded scenario
                let v = Violation::new(PROP, &class, format!("{} (run fell back to free-running mode: foreign blocking; schedule not replayable)", detail), scenario_to_json(&sc, &r.handoffs, sched_seed));
                return (out, Some(v));
            }
            // Reported as recorded. Minimisation happens later, in `run`, once every other
            // simulation of the batch has stopped: while 16 simulations share the process, a
            // regression that introduces process-wide state lets them disturb each other, and a
            // schedule shrunk under such interference need not fail on its own.
            return (out, Some(Violation::new(PROP, &class, detail, scenario_to_json(&sc, &r.handoffs, sched_seed))));
        }
    }
    (out, None)
}


// ------------------------------------------------------------------------------------------------
// volume slice: a few threads whose searches each hold hundreds of thousands of pending
// alternatives at the same time. Everything per search is still far inside the default limits
// (1,000,000 alternatives, 1,000,000 backtracks), so alone every call succeeds; together the
// searches of one run hold more than any single search may. Whatever the library accounts for
// per process instead of per search (stack budgets, pooled buffers, statistics) shows here and
// nowhere in the small workloads.

/// (pattern, pending alternatives per text character, text shape)
const HEAVY_PATTERNS: &[(&str, usize, u8)] = &[
    (r"(a|b)+\1", 2, 0),
    (r"(?:a(?=a|(b)))+b", 1, 1),
    (r"(?:a|b)*(?<=(a))b", 2, 2),
    (r"(?:a|ab)+(?!c)b", 2, 1),
    (r"(?<x>a|b)+(?=\k<x>)", 2, 0),
];

fn heavy_text(rng: &mut Rng, chars: usize, shape: u8) -> String {
    let mut t = String::with_capacity(chars + 4);
    match shape {
        1 => {
            for _ in 0..chars {
                t.push('a');
            }
            t.push('b');
        }
        _ => {
            // random a/b in runs (one PRNG draw per 60 characters keeps generation cheap)
            let mut left = chars;
            while left > 0 {
                let mut bits = rng.next_u64();
                for _ in 0..60.min(left) {
                    t.push(if bits & 1 == 0 { 'a' } else { 'b' });
                    bits >>= 1;
                }
                left -= 60.min(left);
            }
            t.push_str(if shape == 0 { "aa" } else { "ab" });
        }
    }
    t
}

fn gen_heavy_scenario(rng: &mut Rng) -> Option<Scenario> {
    let (pattern, per_char, shape) = *rng.pick(HEAVY_PATTERNS);
    let spec = RegexSpec { pattern: pattern.to_string(), builder_limit: None };
    spec.build()?;
    let n_threads = rng.range(3, 6);
    // one text per run: every search alone peaks at the same 450k..850k alternatives, and in lock
    // step all threads are there at the same moment; three or more together exceed what a single
    // search may hold
    let chars = rng.range(450_000, 850_000) / per_char;
    let texts: Vec<String> = vec![heavy_text(rng, chars, shape)];
    let sharing = *rng.pick(&[Sharing::Shared, Sharing::Shared, Sharing::Clones, Sharing::Mixed]);
    let mut threads = Vec::new();
    for _ in 0..n_threads {
        let mut ops = Vec::new();
        for _ in 0..rng.range(1, 2) {
            let text = rng.below(texts.len());
            let kind = match rng.below(4) {
                0 => OpKind::IsMatch,
                1 => OpKind::Find,
                2 => OpKind::FindFromPos(rng.below(8)),
                _ => OpKind::Captures(0),
            };
            ops.push(Op { kind, re: 0, text, fault: None });
        }
        threads.push(ops);
    }
    Some(Scenario { regexes: vec![spec], texts, threads, sharing, mailboxes: 0, heavy: true })
}

#[derive(Default, Clone)]
struct HeavyOut {
    runs: u64,
    ops: u64,
    decisions: u64,
    handoffs: u64,
    insns: u64,
    min_solo_peak: usize,
    max_solo_peak: usize,
    max_sum_of_solo_peaks: usize,
    runs_whose_solo_peaks_sum_over_1m: u64,
    skipped: u64,
    digest: u64,
}

fn heavy_job(seed: u64, i: u64) -> (HeavyOut, Option<Violation>) {
    let mut out = HeavyOut { min_solo_peak: usize::MAX, ..HeavyOut::default() };
    let mut rng = Rng::new(derive(seed ^ 0x4845_4156_59, i));
    let Some(sc) = gen_heavy_scenario(&mut rng) else {
        out.skipped += 1;
        return (out, None);
    };
    // the solo pass doubles as the measurement of what every search needs alone
    verif::record_run_stats(true);
    let solo = solo_results(&sc);
    let stats = verif::take_run_stats();
    verif::record_run_stats(false);
    let Some(solo) = solo else {
        out.skipped += 1;
        return (out, None);
    };
    let n_ops: usize = sc.threads.iter().map(|t| t.len()).sum();
    if stats.len() != n_ops || solo.iter().flatten().any(|r| r.contains("frsim-budget")) {
        out.skipped += 1;
        return (out, None);
    }
    let insns: u64 = stats.iter().map(|r| r.insns + r.backtracks).sum();
    // peak per thread = its deepest operation; the threads run side by side
    let mut k = 0;
    let mut sum_peaks = 0usize;
    for t in &sc.threads {
        let mut peak = 0usize;
        for _ in t {
            peak = peak.max(stats[k].peak_depth);
            out.min_solo_peak = out.min_solo_peak.min(stats[k].peak_depth);
            out.max_solo_peak = out.max_solo_peak.max(stats[k].peak_depth);
            k += 1;
        }
        sum_peaks += peak;
    }
    out.max_sum_of_solo_peaks = sum_peaks;
    if sum_peaks > 1_000_000 {
        out.runs_whose_solo_peaks_sum_over_1m += 1;
    }
    // frequent hand-offs keep the threads in lock step, so all of them are near their peak at the
    // same time
    let policy = Policy::Uniform { q: rng.range(200, 4000) };
    let sched_seed = rng.next_u64();
    let Some(r) = run_concurrent(&sc, sched_seed, policy) else {
        out.skipped += 1;
        return (out, None);
    };
    out.runs = 1;
    out.ops = n_ops as u64;
    out.decisions = r.stats.decisions;
    out.handoffs = r.stats.handoffs;
    out.insns = insns;
    let mut d = Fnv(sched::schedule_hash(&r.handoffs));
    for t in &r.results {
        for s in t {
            d.str(s);
        }
    }
    out.digest = d.0;
    if let Some((class, detail)) = judge(&sc, &solo, &r) {
        let detail = format!(
            "{} [volume scenario: {} threads, text of {} bytes; alone the searches peak at {}..{} pending alternatives, {} together]",
            detail.chars().take(400).collect::<String>(),
            sc.threads.len(),
            sc.texts[0].len(),
            out.min_solo_peak,
            out.max_solo_peak,
            sum_peaks
        );
        return (out, Some(Violation::new(PROP, &class, detail, scenario_to_json(&sc, &r.handoffs, sched_seed))));
    }
    (out, None)
}

pub fn heavy_digest(seed: u64, n: u64, workers: usize) -> Vec<u64> {
    let (res, _) = run_batch(n, workers, move |i| {
        let (o, v) = heavy_job(seed, i);
        let mut d = Fnv(o.digest);
        d.u64(o.decisions);
        d.u64(o.handoffs);
        d.u64(v.is_some() as u64);
        (d.0, None)
    });
    res.into_iter().map(|(_, d)| d).collect()
}

pub fn digest(seed: u64, n: u64, workers: usize) -> Vec<u64> {
    let (res, _) = run_batch(n, workers, move |i| {
        let (o, v) = job(seed, i, 6, 2);
        let mut d = Fnv(o.digest);
        d.u64(o.decisions);
        d.u64(o.handoffs);
        d.u64(v.is_some() as u64);
        (d.0, None)
    });
    res.into_iter().map(|(_, d)| d).collect()
}

pub fn run(opts: &Opts) -> i32 {
    let t0 = now();
    let thorough = opts.tier == Tier::Thorough;
    let n = if opts.budget > 0 { opts.budget } else if thorough { 40_000 } else { 2_500 };
    let seed = opts.seed;
    let mut agg = JobOut { threads_hist: vec![0; 17], site_counts: vec![0; 128], ..JobOut::default() };
    let mut hashes = Distinct::new();
    let mut samples = Vec::new();
    let (jobs_done, viol) = run_batch_chunked(n, opts.workers, move |i| job(seed, i, 16, 4), |_, r| {
        agg.runs += r.runs;
        agg.ops += r.ops;
        agg.decisions += r.decisions;
        agg.handoffs += r.handoffs;
        agg.faulted_ops += r.faulted_ops;
        agg.fault_results_err += r.fault_results_err;
        agg.overlap_runs += r.overlap_runs;
        agg.max_in_flight = agg.max_in_flight.max(r.max_in_flight);
        agg.clone_ops += r.clone_ops;
        agg.publish_ops += r.publish_ops;
        agg.use_slot_ops += r.use_slot_ops;
        agg.use_slot_found += r.use_slot_found;
        agg.reentrant_ops += r.reentrant_ops;
        agg.free_runs += r.free_runs;
        agg.budget_exhausted += r.budget_exhausted;
        for k in 0..17 {
            agg.threads_hist[k] += r.threads_hist[k];
        }
        for k in 0..3 {
            agg.policy_counts[k] += r.policy_counts[k];
        }
        for (a, b) in agg.site_counts.iter_mut().zip(r.site_counts.iter()) {
            *a += *b;
        }
        hashes.extend(r.sched_hashes.iter());
        if samples.len() < 3 {
            if let Some(s) = &r.sample {
                samples.push(s.clone());
            }
        }
    });
    // volume slice (only when the main batch was clean: one violation per run is reported)
    let n_heavy: u64 = if opts.budget > 0 { (opts.budget / 200).max(4) } else if thorough { 160 } else { 12 };
    let mut hagg = HeavyOut { min_solo_peak: usize::MAX, ..HeavyOut::default() };
    let mut viol = viol;
    let mut heavy_wall = 0.0;
    if viol.is_none() {
        let th = now();
        let (hres, hv) = run_batch(n_heavy, opts.workers.min(4), move |i| heavy_job(seed, i));
        for (_, r) in &hres {
            hagg.runs += r.runs;
            hagg.ops += r.ops;
            hagg.decisions += r.decisions;
            hagg.handoffs += r.handoffs;
            hagg.insns += r.insns;
            hagg.skipped += r.skipped;
            hagg.min_solo_peak = hagg.min_solo_peak.min(r.min_solo_peak);
            hagg.max_solo_peak = hagg.max_solo_peak.max(r.max_solo_peak);
            hagg.max_sum_of_solo_peaks = hagg.max_sum_of_solo_peaks.max(r.max_sum_of_solo_peaks);
            hagg.runs_whose_solo_peaks_sum_over_1m += r.runs_whose_solo_peaks_sum_over_1m;
        }
        heavy_wall = th.elapsed().as_secs_f64();
        if let Some((i, v)) = hv {
            viol = Some((1_000_000_000 + i, v));
        }
    }
    let wall = t0.elapsed().as_secs_f64();
    let mut code = 0;
    let mut violations = 0;
    if let Some((i, v)) = &viol {
        violations = 1;
        let path = write_replay(v, derive(seed, *i));
        // All other simulations have stopped now: replay the recorded scenario and schedule once more
        // in quiescence. (While the batch runs, 16 simulations share the process; a regression that
        // introduces process-wide state lets them disturb each other, which does not make the
        // violation less real but can keep it from recurring.)
        let alone = replay(&v.replay).map_or(false, |(c, _)| c == v.class);
        println!(
            "replay with every other simulation stopped: {}",
            if alone { "reproduced" } else { "did not recur (outcome depends on process-wide state outside the simulator, e.g. other simulations of the batch, allocator addresses, caches left by earlier runs)" }
        );
        let mut v = v.clone();
        let mut path = path;
        if alone && v.class != "deadlock" {
            // shrink in quiescence: fewest hand-offs, then fewer operations; keep only what still
            // fails with the same class, and re-verify the result from its file content
            if let Some((sc, schedule, sseed)) = scenario_from_json(&v.replay) {
                let (msc, mh) = minimise(&sc, &schedule, &v.class);
                let small = scenario_to_json(&msc, &mh, sseed);
                if let Some((c, d)) = replay(&small) {
                    if c == v.class {
                        v = Violation::new(PROP, &c, d, small);
                        path = write_replay(&v, derive(seed, *i));
                    }
                }
            }
        }
        report_violation(&v, &path);
        code = 1;
    }
    if samples.is_empty() {
        samples.push(json!("no run with >= 2 hand-offs"));
    }
    if opts.write_evidence {
        let mut extra = serde_json::Map::new();
        extra.insert("simulated_runs".into(), json!(agg.runs));
        extra.insert("operations".into(), json!(agg.ops));
        extra.insert("distinct_interleavings".into(), json!({"count": hashes.len(), "measure": "hash of the recorded hand-off list (decision index, thread) of each run with >= 1 hand-off"}));
        extra.insert("logical_time".into(), json!({"scheduler_decisions": agg.decisions, "thread_handoffs": agg.handoffs,
            "note": "no wall-clock in the system under test; simulated time is logical (scheduling decisions = yield points reached)"}));
        extra.insert("faults".into(), json!({
            "ops_with_limit_fault_configured": agg.faulted_ops,
            "ops_with_limit_fault_whose_result_shows_the_error": agg.fault_results_err,
        }));
        let names = ["vm_insn", "vm_backtrack", "vm_delegate", "api_is_match", "api_find", "api_captures", "iter_matches_next", "iter_captures_next", "iter_split_next", "iter_splitn_next", "replace_fast_round", "replace_slow_round"];
        let mut sites = serde_json::Map::new();
        for (k, nme) in names.iter().enumerate() {
            sites.insert(nme.to_string(), json!(agg.site_counts[k]));
        }
        sites.insert("op_boundary".into(), json!(agg.site_counts[SITE_OP_BOUNDARY as usize]));
        extra.insert("yield_points_reached_by_site".into(), Value::Object(sites));
        extra.insert("probes".into(), json!({
            "runs_with_two_or_more_searches_in_flight": agg.overlap_runs,
            "max_searches_in_flight": agg.max_in_flight,
            "clone_during_run_ops": agg.clone_ops,
            "regex_compiled_and_published_mid_run_ops": agg.publish_ops,
            "searches_with_a_regex_published_by_another_thread": agg.use_slot_found,
            "use_slot_ops_that_found_the_mailbox_empty": agg.use_slot_ops - agg.use_slot_found,
            "reentrant_replacer_ops": agg.reentrant_ops,
            "runs_by_thread_count": agg.threads_hist,
            "runs_by_policy_uniform_pct_opboundary": agg.policy_counts,
            "runs_in_free_running_mode_foreign_blocking": agg.free_runs,
            "runs_over_decision_budget": agg.budget_exhausted,
        }));
        extra.insert("volume_slice".into(), json!({
            "what": "3..6 threads, each searching the run's text of 225k..850k characters with a VM pattern that keeps 1-2 pending alternatives per character (450k..850k alone, always inside the default limits), hand-offs every 200..4000 yield points so that all threads are near their peak together; oracle as everywhere: the same call alone",
            "runs": hagg.runs,
            "operations": hagg.ops,
            "scheduler_decisions": hagg.decisions,
            "thread_handoffs": hagg.handoffs,
            "vm_instructions_of_the_solo_passes": hagg.insns,
            "smallest_and_largest_peak_of_a_search_alone": [if hagg.runs > 0 { hagg.min_solo_peak } else { 0 }, hagg.max_solo_peak],
            "largest_sum_of_the_threads_solo_peaks_in_one_run": hagg.max_sum_of_solo_peaks,
            "runs_whose_threads_together_need_more_than_1000000_alternatives": hagg.runs_whose_solo_peaks_sum_over_1m,
            "scenarios_skipped": hagg.skipped,
            "wall_s": heavy_wall,
        }));
        extra.insert("runs_per_hour".into(), json!((((agg.runs + hagg.runs) as f64) / wall.max(1e-9) * 3600.0) as u64));
        extra.insert("seeds".into(), json!(format!("derive({}, 0..{}) x 4 runs each; volume slice derive({} ^ 'HEAVY', 0..{})", seed, jobs_done, seed, n_heavy)));
        extra.insert("real_vs_stub".into(), json!({
            "real": ["fancy_regex (whole public search API)", "regex-automata incl. its cache pool", "real OS threads, real thread-locals"],
            "stubbed": ["the OS scheduler: replaced by the seeded baton scheduler (one thread runs at a time, hand-offs only at hook yield points)", "limits of chosen searches overridden through the H2 hook"],
        }));
        Evidence {
            property: PROP.into(),
            tier: opts.tier,
            seed,
            level: "exploration",
            evaluations: agg.runs + hagg.runs,
            distinct_nontrivial: hashes.len() as u64,
            rule: "run = scenario (1-2 regexes from a corpus half delegated / half VM or the seeded grammar, 2..16 threads, 2..8 API operations each, shared / cloned / mixed) x one seeded schedule (uniform 1/q, PCT-like with 1..3 preemption points, or operation-boundary policy); non-trivial = at least one hand-off happened; distinct by hash of the hand-off list".into(),
            samples,
            extra,
            assumptions: vec![
                "threads can lose the CPU only at the hook yield points (every VM instruction, backtrack, delegate call, API and iterator seam)".into(),
                "races below that granularity (unsafe code, or new code that locks and unlocks between two yield points) are left to the Miri slice, which runs in both tiers".into(),
                "reference = every call alone on a freshly compiled regex; an operation that works through a private clone is referred to a second fresh build, never to a clone".into(),
            ],
            wall_s: wall,
            violations,
        }
        .write();
    }
    println!(
        "C18 {}: {} simulated runs, {} ops, {} decisions, {} hand-offs, {} distinct interleavings; volume slice {} runs, {} decisions, {} of them with > 1M alternatives pending across threads; {:.1}s",
        opts.tier.name(), agg.runs, agg.ops, agg.decisions, agg.handoffs, hashes.len(), hagg.runs, hagg.decisions, hagg.runs_whose_solo_peaks_sum_over_1m, wall
    );
    code
}
